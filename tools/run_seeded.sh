#!/bin/bash
# usage: run_seeded.sh <seeded-dir-name> [tier]   e.g. run_seeded.sh C02-1
# Applies the seeded mutant to /repo, runs the property's check, reverts. Prints DETECTED / MISSED.
S=$1; TIER=${2:-quick}
D=/verif/seeded/$S
PID=$(python3 -c "import json;print(json.load(open('$D/meta.json'))['property'])")
cd /repo && git diff --quiet || { echo "repo dirty"; exit 2; }
git apply $D/patch.diff || { echo "$S: patch does not apply"; exit 3; }
cd /verif && ./check $PID $TIER > /tmp/mut/seedrun_$S.txt 2>&1; RC=$?
git -C /repo checkout -- .
find /verif/replays -name "$PID-*.json" -newer $D/patch.diff -delete 2>/dev/null
if [ $RC -eq 1 ]; then echo "$S: DETECTED by ./check $PID $TIER"; elif [ $RC -eq 0 ]; then echo "$S: MISSED by ./check $PID $TIER"; else echo "$S: TOOL-ERROR rc=$RC"; tail -5 /tmp/mut/seedrun_$S.txt; fi
exit 0
