#!/bin/bash
# usage: run_seeded.sh <seeded-dir-name> [tier]   e.g. run_seeded.sh C02-1
# Applies the seeded change to a SCRATCH COPY of the repository (/tmp/alt/repo, VERIF_ALT mode of ./check),
# runs the property's check there, reverts.  /repo itself is never touched.  Prints DETECTED / MISSED.
S=$1; TIER=${2:-quick}
D=/verif/seeded/$S
PID=$(python3 -c "import json;print(json.load(open('$D/meta.json'))['property'])")
/verif/tools/alt_setup.sh >/dev/null || { echo "alt setup failed"; exit 2; }
P=$D/patch.diff; [ -f $D/patch_rebased.diff ] && P=$D/patch_rebased.diff
cd /tmp/alt/repo && git apply $P || { echo "$S: patch does not apply"; exit 3; }
cd /verif && VERIF_ALT=/tmp/alt ./check $PID $TIER > /tmp/alt/seedrun_$S.txt 2>&1; RC=$?
git -C /tmp/alt/repo checkout -q -- .
if [ $RC -eq 1 ]; then echo "$S: DETECTED by ./check $PID $TIER"; elif [ $RC -eq 0 ]; then echo "$S: MISSED by ./check $PID $TIER"; else echo "$S: TOOL-ERROR rc=$RC"; tail -5 /tmp/alt/seedrun_$S.txt; fi
exit 0
