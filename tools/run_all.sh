#!/bin/bash
# run every claimed check at the given tier, sequentially; summary at the end
TIER=${1:-quick}
cd /verif
IDS=${2:-$(python3 -c "import json;print(' '.join(c['property_id'] for c in json.load(open('MANIFEST.json'))['checks']))")}
for id in $IDS; do
  s=$(date +%s); ./check $id $TIER > /verif/work/all_$id.log 2>&1; rc=$?; e=$(date +%s)
  echo "$id rc=$rc $((e-s))s $(grep -c '^VIOLATION' /verif/work/all_$id.log) violations $(grep -c '^KNOWN-FINDING' /verif/work/all_$id.log) known"
done
