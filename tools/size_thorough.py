#!/usr/bin/env python3
"""Run every thorough-tier TLC model once WITHOUT the harness (cases are only counted) under a time cap,
to size the configs: prints states, cases, seconds."""
import sys, os, subprocess, time, re
sys.path.insert(0, '/verif')
from props import PROPS
cap = int(sys.argv[1]) if len(sys.argv) > 1 else 240
only = sys.argv[2:] 
seen = set()
for pid, P in PROPS.items():
    if only and pid not in only: continue
    for mc in P["mc"]:
        if "thorough" not in mc.get("tiers", ("quick", "thorough")): continue
        key = (mc["module"], mc["cfg"])
        if key in seen: continue
        seen.add(key)
        md = "/verif/work/size_md_%d" % os.getpid()
        cmd = ["java", "-XX:+UseParallelGC", "-Xmx16g", "-cp", "/opt/veriftools/tla/tla2tools.jar:/opt/veriftools/tla/CommunityModules-deps.jar",
               "tlc2.TLC", "-workers", "12", "-metadir", md, "-cleanup", "-noGenerateSpecTE", "-config", "/verif/spec/" + mc["cfg"], "/verif/spec/" + mc["module"] + ".tla"]
        t = time.time()
        out = "/verif/work/size_out_%d.txt" % os.getpid()
        with open(out, "w") as f:
            try:
                subprocess.run(cmd, stdout=f, stderr=subprocess.STDOUT, timeout=cap, env=dict(os.environ, JAVA_TOOL_OPTIONS="-Xss1g"))
            except subprocess.TimeoutExpired:
                pass
        cases = 0; nbytes = 0; states = "?"; done = False
        for line in open(out, errors="replace"):
            if line.startswith('"CASE '):
                cases += 1; nbytes += len(line)
            else:
                m = re.match(r"(\d+) states generated, (\d+) distinct", line)
                if m: states = m.group(2)
                if "Model checking completed" in line: done = True
        os.unlink(out)
        subprocess.run(["rm", "-rf", md])
        print("%-4s %-34s states=%-9s cases=%-9d caseMB=%-6d %5.0fs %s" % (pid, mc["cfg"], states, cases, nbytes >> 20, time.time() - t, "done" if done else "CAPPED"), flush=True)
