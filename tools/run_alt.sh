#!/bin/bash
# usage: run_alt.sh <patch.diff> "<ids>" [tier]  -- apply a patch to the scratch copy, run the given checks there, revert.
PATCH=$1; IDS=$2; TIER=${3:-quick}
/verif/tools/alt_setup.sh >/dev/null || exit 2
cd /tmp/alt/repo && git apply $PATCH || { echo "patch does not apply"; exit 3; }
cd /verif
for id in $IDS; do
  VERIF_ALT=/tmp/alt ./check $id $TIER > /tmp/alt/out_$id.txt 2>&1; rc=$?
  echo "  $id rc=$rc $(grep -c '^VIOLATION' /tmp/alt/out_$id.txt) violations $(grep -m1 -E 'TOOL-ERROR' /tmp/alt/out_$id.txt | cut -c1-160)"
done
git -C /tmp/alt/repo checkout -q -- .
