#!/bin/bash
# usage: run_benign_par.sh <benign-dir-name> "<ids>" [tier] -- a behaviour-preserving change on a private scratch copy; every
# listed check must exit 0 there (no VIOLATION, no tool error).  Removes the copy afterwards.
S=$1; IDS=$2; TIER=${3:-quick}
D=/verif/seeded/$S; A=/tmp/altp/$S
mkdir -p $A; rm -rf $A/harness $A/work $A/replays $A/evidence
[ -d $A/repo ] || git -C /repo worktree add -q --detach $A/repo HEAD || exit 2
git -C $A/repo checkout -q -- .
rsync -a --exclude target /verif/harness/ $A/harness/
sed -i "s|path = \"/repo\"|path = \"$A/repo\"|" $A/harness/Cargo.toml
(cd $A/repo && git apply $D/patch.diff) || { echo "$S: patch does not apply at this HEAD"; git -C /repo worktree remove --force $A/repo; rm -rf $A; exit 3; }
cd /verif
for id in $IDS; do
  VERIF_ALT=$A ./check $id $TIER > /tmp/altp/benign_${S}_$id.txt 2>&1; rc=$?
  echo "$S $id rc=$rc $(grep -c '^VIOLATION' /tmp/altp/benign_${S}_$id.txt) violations"
done
git -C /repo worktree remove --force $A/repo; rm -rf $A
