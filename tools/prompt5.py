import json,sys,glob,subprocess
# usage: prompt5.py <PID> [n] [round]  -- round >= 8: prompt4's text + the mechanisms rounds 5-7 used for ANY property
pid=sys.argv[1]; n=sys.argv[2] if len(sys.argv)>2 else "1"; rnd=sys.argv[3] if len(sys.argv)>3 else "8"
txt=subprocess.run(['python3','/verif/tools/prompt4.py',pid,n,rnd],capture_output=True,text=True).stdout
extra=("\n\nAlso already used in earlier rounds for OTHER properties, so not wanted again: a table keyed by a 64-bit hash with an engineered collision; "
 "recursion that only overflows in an unoptimised build; a different tie order among tokens that share a generated position; a digit loop over `chars()` instead of bytes; "
 "state lost when a read returns `ErrorKind::Interrupted`; a width test that is off at exactly U+FFFF; a fast path that is wrong for one value such as -512; "
 "list entries beyond the table length dropped; one document-kind marker preferred when two are present; JSON entries of an unexpected type dropped late; "
 "one accessor (`get_src`) disagreeing with its siblings; empty strings filtered out; a line cut at a fixed byte; a path cut at `?` or `#`; `try_lock` with a fallback; "
 "an iterator that keeps a lock; an owned parse route that differs from the borrowed one; a second list entry used when the first fails; a file name compared with source names; "
 "a signed instead of unsigned sort.\n\n"
 "What IS wanted this round: a change that needs a MULTI-STEP HISTORY on one object (a particular order of three or more public calls, or a call after a failed call, or a mutation between two queries), "
 "or TWO COOPERATING SITES that each look fine alone (e.g. the writer and the reader both changed so simple round trips still agree but a third route disagrees), "
 "or a FAULT AT A PARTICULAR POINT (an error or short read at one specific position of the input), or an INTERLEAVING. A one-value trigger is acceptable only if the value is a natural one "
 "(not a magic constant introduced by the change).\n")
txt=txt.replace("\n\nLook for a genuinely different mechanism:", extra+"\nLook for a genuinely different mechanism:")
print(txt)
