#!/bin/bash
# usage: confirm_mutant.sh <PID> <k>
# Confirms, in the scratch worktree /tmp/mut/<PID>, that the sub-agent's mutant (a) applies, (b) keeps the
# existing suite green, (c) makes its demo fail, and (d) the demo passes without it.  On success stores it
# under /verif/seeded/<PID>-<k>/ with meta.json.
PID=$1; K=$2
ROUND=${ROUND:-}
if [ -n "$ROUND" ]; then SRC=/tmp/mut/out$ROUND/$PID/$K; WT=/tmp/mut/${PID}r$ROUND; DEST=/verif/seeded/$PID-r$ROUND-$K;
else SRC=/tmp/mut/out/$PID/$K; WT=/tmp/mut/$PID; DEST=/verif/seeded/$PID-$K; fi
set -u
[ -f $SRC/patch.diff ] || { echo "no patch $SRC"; exit 2; }
FEAT=$(python3 -c "import json;print(json.load(open('$SRC/meta.json')).get('features','') or '')" 2>/dev/null)
FFLAG=""; [ -n "$FEAT" ] && FFLAG="--features $FEAT"
[ -d $WT ] || git -C /repo worktree add -q --detach $WT HEAD; cd $WT || exit 2
git checkout -q -- . ; git clean -fdq tests/ 2>/dev/null
git -c advice.detachedHead=false checkout -q --detach $(git -C /repo rev-parse HEAD) || exit 2
cp $SRC/demo.rs tests/demo_${PID}_$K.rs
# (d) demo passes without the mutant
cargo test --offline $FFLAG --test demo_${PID}_$K >/tmp/mut/log_${PID}_${K}_clean.txt 2>&1; D_CLEAN=$?
git apply $SRC/patch.diff || { echo "$PID-$K: patch does not apply at /repo HEAD"; rm -f tests/demo_${PID}_$K.rs; exit 3; }
# (c) demo fails with the mutant
cargo test --offline $FFLAG --test demo_${PID}_$K >/tmp/mut/log_${PID}_${K}_mut.txt 2>&1; D_MUT=$?
rm -f tests/demo_${PID}_$K.rs
# (b) existing suite passes with the mutant (default features = the pinned baseline)
cargo test --offline >/tmp/mut/log_${PID}_${K}_suite.txt 2>&1; SUITE=$?
git checkout -q -- .
echo "$PID-$K: demo_clean=$D_CLEAN demo_mutant=$D_MUT suite_with_mutant=$SUITE"
if [ $D_CLEAN -eq 0 ] && [ $D_MUT -ne 0 ] && [ $SUITE -eq 0 ]; then
  mkdir -p $DEST && cp $SRC/patch.diff $DEST/patch.diff && cp $SRC/demo.rs $DEST/demo.rs
  python3 - <<PY
import json
m=json.load(open('$SRC/meta.json'))
out=dict(property='$PID', summary=m.get('summary'), needs=m.get('needs'), features=m.get('features',''),
  author='independent sub-agent given only the property text and a scratch worktree',
  confirmed=dict(at_repo_commit='$(git -C /repo rev-parse --short HEAD)', demo_passes_without_mutant=True, demo_fails_with_mutant=True, existing_suite_passes_with_mutant=True,
                 ran=['cargo test --offline $FFLAG --test demo_${PID}_$K (clean: exit $D_CLEAN; mutant: exit $D_MUT)','cargo test --offline (mutant: exit $SUITE)']),
  agent_ran=m.get('ran'))
json.dump(out, open('$DEST/meta.json','w'), indent=1)
PY
  echo "$PID-$K: CONFIRMED -> $DEST"
else
  echo "$PID-$K: NOT confirmed"
fi
