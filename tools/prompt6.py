import sys,subprocess
# usage: prompt6.py <PID> [n] [round]  -- round >= 9: prompt5's text + the mechanisms round 8 used for ANY property
pid=sys.argv[1]; n=sys.argv[2] if len(sys.argv)>2 else "1"; rnd=sys.argv[3] if len(sys.argv)>3 else "9"
txt=subprocess.run(['python3','/verif/tools/prompt5.py',pid,n,rnd],capture_output=True,text=True).stdout
extra=("Round 8 (for OTHER properties) already used, so not wanted again: `remove_names()` followed by serialisation; an empty `sections` list; a builder that skips its sort when entry points are mixed; "
 "two `seek` calls on one `TokenIter`; a scratch buffer shared between two parsers and not cleared after a failed parse; a per-view cursor that makes the second `get_line_slice` wrong; "
 "`SourceView::sourcemap_reference` answering differently once the line index is complete; doubled path separators; an iterator that ends after the first error; a remembered 'last section' hint in an index lookup; "
 "`set_source_root` dropping its prefixed table when nothing changes, breaking a later `set_source`; a resumed line scan mixing relative and absolute offsets around `\\r`; trailing garbage accepted when a read ends exactly at the closing brace; "
 "`trim_start_matches` stripping a repeated prefix; `adjust_mappings` losing the source root; `dedup()` in the constructor cooperating with the range-bit writer; a flag not reset after a 13-digit VLQ value; "
 "a cut-off VLQ value tolerated in a function map; text-less tokens made transparent in the function-name walk.\n\n")
txt=txt.replace("What IS wanted this round:", extra+"What IS wanted this round:")
print(txt)
