import json,sys
pid=sys.argv[1]; n=sys.argv[2] if len(sys.argv)>2 else "2"
for l in open('/verif/properties.jsonl'):
    p=json.loads(l)
    if p['id']==pid: break
print(f"""You are helping evaluate a verification effort for the Rust crate `sourcemap` (getsentry/rust-sourcemap). Your job is to play the part of a realistic regression: produce {n} DIFFERENT small source changes ("mutants") to the crate that each BREAK the semantic property stated below, while the crate still compiles and its existing test suite still passes.

Your private scratch git worktree of the repository is at: /tmp/mut/{pid}   (work ONLY inside that directory; never touch /repo or /verif; there is no network — always use `cargo ... --offline`).

THE PROPERTY ({pid}: {p['title']}):
{p['statement']}

Quantified over: {p['quantifier']['text']}

Relevant source files (hint): {', '.join(p['anchors']['files'])}

REQUIREMENTS for each mutant:
1. It is a small, plausible change to the library's source under src/ (the kind of mistake a maintainer could make in a refactoring, optimisation or "simplification") — not a change to tests, not a deletion of a whole feature, not gated behind cfg flags.
2. With the change applied, `cargo build --offline` succeeds and `cargo test --offline` (the existing suite, unedited; default features) still passes completely.
3. It violates the property above, but needs something SPECIFIC to manifest: an unusual input, a particular multi-step sequence of operations, a boundary value, a specific chunking/interleaving, or two cooperating sites that each look fine alone. Not something that ordinary use or the first obvious test would expose at once.
4. You provide a demonstration: a self-contained Rust integration test file (to be placed at tests/demo_{pid}_<k>.rs in the worktree; if it needs the optional `ram_bundle` feature say so and run with `--features ram_bundle`) that FAILS with the mutant applied and PASSES on the unmodified code. Verify both facts yourself by running it (`cargo test --offline --test demo_{pid}_<k>`), with and without the change.
5. The mutants must be independent of each other (each is a separate diff against the unmodified worktree HEAD) and should break the property through different mechanisms/sites.

DELIVERABLES — write these files (create the directory) and leave the worktree CLEAN (git checkout -- . ; remove your demo tests from tests/) when you finish:
  /tmp/mut/out/{pid}/<k>/patch.diff     (output of `git diff` for the source change only, applies with `git apply` at the worktree HEAD)
  /tmp/mut/out/{pid}/<k>/demo.rs        (the demonstration test file)
  /tmp/mut/out/{pid}/<k>/meta.json      ({{"property":"{pid}","summary":"what was changed","needs":"what is needed for it to manifest","ran":["commands you ran and their outcome"],"features":"" or "ram_bundle"}})
for k = 1..{n}.

In your final answer, list for each mutant: the one-line summary, what it needs to manifest, and confirm (a) existing tests pass with it, (b) demo fails with it, (c) demo passes without it. Do not look at or rely on anything under /verif.""")
