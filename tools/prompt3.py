import json,sys,glob
pid=sys.argv[1]; n=sys.argv[2] if len(sys.argv)>2 else "2"
for l in open('/verif/properties.jsonl'):
    p=json.loads(l)
    if p['id']==pid: break
prev=[]
for f in sorted(glob.glob('/verif/seeded/%s-*/meta.json'%pid)):
    try: prev.append("- "+json.load(open(f))['summary'][:260])
    except Exception: pass
import subprocess
txt=subprocess.run(['python3','/verif/tools/prompt2.py',pid,n],capture_output=True,text=True).stdout
txt=txt.replace("/tmp/mut/%sr2"%pid,"/tmp/mut/%sr3"%pid).replace("/tmp/mut/out2/","/tmp/mut/out3/")
txt=txt.replace("This is a SECOND ROUND.","This is a THIRD ROUND. The following changes were already produced for this property in earlier rounds -- do NOT repeat them or close variants of them:\n"+"\n".join(prev)+"\n\nGeneral remark on earlier rounds:")
print(txt)
