import json,sys,glob,subprocess
# usage: prompt4.py <PID> [n] [round]   -- prompt for round >= 3: prompt2's text + the list of what earlier rounds produced
pid=sys.argv[1]; n=sys.argv[2] if len(sys.argv)>2 else "1"; rnd=sys.argv[3] if len(sys.argv)>3 else "4"
prev=[]
for f in sorted(glob.glob('/verif/seeded/%s-*/meta.json'%pid)):
    try: prev.append("- "+json.load(open(f))['summary'][:260])
    except Exception: pass
txt=subprocess.run(['python3','/verif/tools/prompt2.py',pid,n],capture_output=True,text=True).stdout
txt=txt.replace("/tmp/mut/%sr2"%pid,"/tmp/mut/%sr%s"%(pid,rnd)).replace("/tmp/mut/out2/","/tmp/mut/out%s/"%rnd)
txt=txt.replace("This is a SECOND ROUND.","This is ROUND %s. The following changes were already produced for this property in earlier rounds -- do NOT repeat them or close variants of them (in particular: no new size threshold on the same container, no new fast path keyed to one value class already used below, no `nth`-style iterator override, no cache that goes stale; and, used for OTHER properties already: no change to an `impl Clone`, no 'only one of two aliased tables is updated by a setter', no sentinel value (`!0`, the <invalid> file placeholder) colliding with input, no pointer-equality shortcut, no BOM stripping, no early return keyed on debug ids, no short `write` instead of `write_all`, no case-insensitive or byte-prefix comparison of path components):\n"%rnd+"\n".join(prev)+"\n\nLook for a genuinely different mechanism: an interaction between two public API calls, an error path, an ordering assumption, a unit confusion (bytes / chars / UTF-16 units, 0- vs 1-based, line vs column), an aliasing of two tables, a default that differs between two construction routes, a comparison that is not transitive, a trait impl (Clone, PartialEq, Ord, Hash, Display, Debug, Default, From) that disagrees with the data.\n\nGeneral remark on earlier rounds:")
print(txt)
