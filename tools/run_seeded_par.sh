#!/bin/bash
# usage: run_seeded_par.sh <seeded-dir-name> [tier]  -- like run_seeded.sh but with a private scratch copy per change
# (/tmp/altp/<name>: repo worktree + harness copy), so several changes can be tried at once.  Removes the copy afterwards.
S=$1; TIER=${2:-quick}
D=/verif/seeded/$S; A=/tmp/altp/$S
PID=$(python3 -c "import json;print(json.load(open('$D/meta.json'))['property'])")
mkdir -p $A; rm -rf $A/harness $A/work $A/replays $A/evidence
[ -d $A/repo ] || git -C /repo worktree add -q --detach $A/repo HEAD || exit 2
git -C $A/repo checkout -q -- .
rsync -a --exclude target /verif/harness/ $A/harness/
sed -i "s|path = \"/repo\"|path = \"$A/repo\"|" $A/harness/Cargo.toml
P=$D/patch.diff; [ -f $D/patch_rebased.diff ] && P=$D/patch_rebased.diff
(cd $A/repo && git apply $P) || { echo "$S: patch does not apply"; exit 3; }
cd /verif && VERIF_ALT=$A ./check $PID $TIER > /tmp/altp/seedrun_$S.txt 2>&1; RC=$?
if [ $RC -eq 1 ]; then echo "$S: DETECTED by ./check $PID $TIER"; elif [ $RC -eq 0 ]; then echo "$S: MISSED by ./check $PID $TIER"; else echo "$S: TOOL-ERROR rc=$RC"; tail -5 /tmp/altp/seedrun_$S.txt; fi
git -C /repo worktree remove --force $A/repo; rm -rf $A
exit 0
