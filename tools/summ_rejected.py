#!/usr/bin/env python3
"""Summarise /verif/work/<PID>_<tier>_rejected.ndjson (counts per op/outcome/label), compactly."""
import json, sys, collections
c = collections.Counter()
for l in open(sys.argv[1]):
    e = json.loads(l)
    lab = e['args'].get('label', {})
    c[(e['op'], json.dumps(e['out'])[:80], json.dumps(lab.get('faults', lab.get('src')))[:100])] += 1
for k, v in c.most_common(15):
    print(v, k)
