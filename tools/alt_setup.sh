#!/bin/bash
# Prepare a scratch copy of the repository and of the harness under /tmp/alt so that seeded changes and
# refactorings can be tried with `VERIF_ALT=/tmp/alt ./check ...` without touching /repo.
set -e
mkdir -p /tmp/alt
if [ ! -d /tmp/alt/repo ]; then git -C /repo worktree add -q --detach /tmp/alt/repo HEAD; fi
git -C /tmp/alt/repo checkout -q -- . ; git -C /tmp/alt/repo -c advice.detachedHead=false checkout -q --detach $(git -C /repo rev-parse HEAD)
mkdir -p /tmp/alt/harness
rsync -a --delete --exclude target /verif/harness/ /tmp/alt/harness/
sed -i 's|path = "/repo"|path = "/tmp/alt/repo"|' /tmp/alt/harness/Cargo.toml
echo "alt ready at $(git -C /tmp/alt/repo rev-parse --short HEAD)"
