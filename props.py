"""Per-property table for ./check.  Every property is decided by the same pipeline:
TLC model check of the specification (+ enumeration of the bounded universe), execution of
the enumerated and of seeded random cases on the real crate, TLC trace validation."""

COMMON_ASSUMPTIONS = [
    "TLC 1.8.0 and the CommunityModules Json/IOUtils overrides are correct",
    "the harness logs arguments and results faithfully (symbol tables, i64<->bit lists, projections); it has no oracle",
    "bounded universe: TLC results hold for the constants in the .cfg files; larger sizes are sampled by the seeded driver only",
    "panics are caught with catch_unwind and logged as data; the harness is built with overflow-checks and debug-assertions on",
]

SIGNATURES = {}
NOT_APPLICABLE = {}
HOOK_COMMITS = []

PROPS = {}

PROPS["C11"] = dict(
    level="model_checking",
    level_text="Bounded exhaustive model checking of the VLQ specification plus conformance of the real codec on every enumerated and on seeded random inputs, judged by TLC; right level because the codec is a small state machine whose whole digit/carry structure is covered by the bounded universe",
    level_note="trusted: TLC, the harness's i64<->bit-list conversion and symbol table; not the crate's own inverse function. 2^33 sweep not reproduced.",
    technique="TLA+ bit-level VLQ spec (Vlq.tla): TLC checks machine = declarative reading, Dec(Enc(v)) = v, canonical fixpoints on a bounded universe; every enumerated text/value and seeded random ones are run through parse_vlq_segment/generate_vlq_segment and the trace is validated by TLC against Trace_C11.tla",
    mc=[
        dict(module="MC_Vlq", cfg="MC_Vlq_quick.cfg", tiers=("quick",), workers=8),
        dict(module="MC_Vlq", cfg="MC_Vlq_thorough.cfg", tiers=("thorough",), workers=12, timeout=3000, heap="16g"),
    ],
    trace="Trace_C11",
    drive=dict(quick=dict(n=20000, size=4), thorough=dict(n=400000, size=6)),
    nontrivial=lambda e: (e["op"] == "dec" and len(e["args"]["ds"]) >= 2) or (e["op"] == "enc" and any(v["bits"] for v in e["args"]["vals"])),
    rule="cases: (a) every digit string / value list of the TLC universe (all strings up to FullLen over the 64 digits, up to RedLen over 9 boundary digits, continuation runs of 11..14 digits, all magnitudes up to SmallBits bits, 2^k, 2^k-1, 2^(k-1)+1 for k<=62, both signs), (b) seeded random values uniform in bit length 0..62, u32 differences, random/canonical/damaged texts, foreign bytes; distinct = distinct (op,args); non-trivial = decode of >= 2 symbols or encode of a non-zero value",
    assumptions=COMMON_ASSUMPTIONS + ["the 2^33 exhaustive sweep of the quantifier text is not reproduced (see DESIGN.md C11)"],
)
