"""Per-property table for ./check.  Every property is decided by the same pipeline:
TLC model check of the specification (+ enumeration of the bounded universe), execution of
the enumerated and of seeded random cases on the real crate, TLC trace validation."""

COMMON_ASSUMPTIONS = [
    "TLC 1.8.0 and the CommunityModules Json/IOUtils overrides are correct",
    "the harness logs arguments and results faithfully (symbol tables, i64<->bit lists, projections); it has no oracle",
    "bounded universe: TLC results hold for the constants in the .cfg files; larger sizes are sampled by the seeded driver only",
    "panics are caught with catch_unwind and logged as data; the harness is built with overflow-checks and debug-assertions on",
]

SIGNATURES = {}


NOT_APPLICABLE = {}
HOOK_COMMITS = []

PROPS = {}

PROPS["C11"] = dict(
    level="model_checking",
    level_text="Bounded exhaustive model checking of the VLQ specification plus conformance of the real codec on every enumerated and on seeded random inputs, judged by TLC; right level because the codec is a small state machine whose whole digit/carry structure is covered by the bounded universe",
    level_note="trusted: TLC, Apalache (symbolic round trip over all 62-bit values, on the specification), the harness's i64<->bit-list conversion and symbol table; not the crate's own inverse function. The 2^33 sweep over the IMPLEMENTATION is not reproduced.",
    technique="TLA+ bit-level VLQ spec (Vlq.tla): TLC checks machine = declarative reading, Dec(Enc(v)) = v, canonical fixpoints on a bounded universe; every enumerated text/value and seeded random ones are run through parse_vlq_segment/generate_vlq_segment and the trace is validated by TLC against Trace_C11.tla",
    mc=[
        dict(module="MC_Vlq", cfg="MC_Vlq_quick.cfg", tiers=("quick",), workers=8),
        dict(module="MC_Vlq", cfg="MC_Vlq_thorough.cfg", tiers=("thorough",), workers=12, timeout=3000, heap="16g"),
        # the unrolled formulation used for the symbolic check produces exactly Vlq!Enc's digits
        dict(module="MC_VlqApa", cfg="MC_VlqApa.cfg", workers=4, gen=False),
    ],
    symbolic=[dict(name="vlq", module="VlqApa", inv="RoundTrip", length=0, timeout=900,
                   claim="Dec(Enc(v)) = v and the decoder stops exactly after the last digit, for EVERY sign and EVERY 62-bit magnitude (2^63 values, bits are SMT variables)")],
    trace="Trace_C11",
    drive=dict(quick=dict(n=20000, size=4), thorough=dict(n=400000, size=6)),
    nontrivial=lambda e: (e["op"] == "dec" and len(e["args"]["ds"]) >= 2) or (e["op"] == "enc" and any(v["bits"] for v in e["args"]["vals"])),
    rule="cases: (a) every digit string / value list of the TLC universe (all strings up to FullLen over the 64 digits, up to RedLen over 9 boundary digits, continuation runs of 11..14 digits, all magnitudes up to SmallBits bits, 2^k, 2^k-1, 2^(k-1)+1 for k<=62, both signs), (b) seeded random values uniform in bit length 0..62, u32 differences, random/canonical/damaged texts, foreign bytes; distinct = distinct (op,args); non-trivial = decode of >= 2 symbols or encode of a non-zero value; one value per digit-count class 1..15 (payloads random / all zero / all ones)",
    assumptions=COMMON_ASSUMPTIONS + ["the 2^33 exhaustive sweep of the quantifier text is not reproduced (see DESIGN.md C11)"],
)

def _doc_ntoks(e):
    try:
        return len(e["out"].get("toks", e["out"].get("vtoks", [])))
    except Exception:
        return 0

def _corrupt_decode(e):
    """binding self-test for decode events: change one token field / one source / the kind"""
    o = e["out"]
    if e["op"] == "decode_big":
        if o.get("vtoks"):
            o["vtoks"][0][0] += 1
            return True
        return False
    if o.get("toks"):
        o["toks"][len(o["toks"]) // 2][1] += 1
        return True
    if o.get("sources"):
        o["sources"][0] = o["sources"][0] + [120]
        return True
    if o.get("kind") == "index" and o["sections"]:
        o["sections"][0]["off"][1] += 1
        return True
    return False

PROPS["C02"] = dict(
    level="model_checking",
    level_text="The decoder is specified twice in TLA+ (symbol-by-symbol machine with the six accumulators; declarative split-and-prefix-sum reading) and TLC checks they agree on every text of a bounded universe; the same universe and seeded random documents written by the harness's own envelope/VLQ writer are decoded by the real crate and every result is judged by TLC (Trace_C02: tokens, kind, sources joined with the root, names, contents, ids, sections)",
    level_note="bounded: texts of <= 2 (quick) / 3 (thorough) segments from a 10/16-segment alphabet plus single faults; random documents up to ~50 segments; running sums beyond 2^30 are not evaluated by TLC (32-bit integers); serde_json behind the API is not modelled",
    technique="TLA+ decoder state machine + declarative reading (Mappings.tla, Doc.tla), TLC bounded model checking, trace validation of real decode_slice results",
    mc=[
        dict(module="MC_Mappings", cfg="MC_Mappings_quick.cfg", tiers=("quick",), workers=8),
        dict(module="MC_Mappings", cfg="MC_Mappings_thorough.cfg", tiers=("thorough",), workers=14, timeout=3400, heap="24g"),
    ],
    trace="Trace_C02",
    drive=dict(quick=dict(n=1500, size=6), thorough=dict(n=30000, size=10)),
    nontrivial=lambda e: e["out"].get("k") == "ok" and (_doc_ntoks(e) >= 2 or e["out"].get("kind") == "index"),
    corrupt=_corrupt_decode,
    rule="cases: every mappings text of the TLC universe (MC_Mappings: leads x segments x separators x trails x array sizes, plus every single fault) wrapped in a default envelope, and seeded random regular/Hermes/index documents (random key order, optional keys, junk header, null sources, numeric names, both debug id keys, source roots); distinct = distinct document; non-trivial = decodes successfully with >= 2 tokens or is an index map; numeric names as literals beyond 53 bits and fractions; unknown keys with well-formed values anywhere in the key order; random rangeMappings; refused documents (C06's) mixed into the stream; url next to an embedded map; sections sharing an offset; index maps without sections; Hermes documents whose function maps are unparsable (cut off after 0..3 complete values), also around every TLC-enumerated text",
    assumptions=COMMON_ASSUMPTIONS + ["documents are written by the harness's own writer (string escaping delegated to serde_json)"],
)

PROPS["C06"] = dict(
    level="fault_enumeration",
    level_text="Single faults (foreign byte incl. UTF-8 multi-byte, continuation bit, dropped/added field, 14-digit value, index delta of +-2^32) are enumerated by TLC at every position of every base text of the bounded universe; TLC checks on the model that the decoder machine rejects exactly the declaratively malformed texts, and every faulty text (plus seeded random texts with 1-2 faults) is decoded by the real crate and judged by TLC: malformed => Err, Ok => all indices resolve and tokens equal the independent reading",
    level_note="error VARIANT is not compared (the statement only demands an error); texts whose running positions go negative are outside the rejection rules and only required not to panic",
    technique="TLA+ decoder machine with explicit error transitions (Mappings.tla), TLC fault enumeration, trace validation of real decode_slice results",
    mc=[
        dict(module="MC_Mappings", cfg="MC_Mappings_quick.cfg", tiers=("quick",), workers=8),
        dict(module="MC_Mappings", cfg="MC_Mappings_thorough.cfg", tiers=("thorough",), workers=14, timeout=3400, heap="24g"),
    ],
    trace="Trace_C02",
    drive=dict(quick=dict(n=6000, size=4), thorough=dict(n=100000, size=8)),
    nontrivial=lambda e: (len(e["args"]["doc"]["mappings"][0]) >= 2 if e["args"]["doc"]["mappings"] else bool(e["args"]["doc"].get("sections"))),
    corrupt=_corrupt_decode,
    rule="cases: every text of MC_Mappings (base texts and every single fault at every position, 3 array sizes incl. empty arrays) and seeded random well-formed texts damaged by 1-2 faults (9 fault operators); distinct = distinct (text, sizes); non-trivial = text of >= 2 symbols; faults placed in any mappings text of flat / Hermes / (nested) index documents; texts written for more sources / names than declared with independently sized tables; a Hermes variant of every TLC-enumerated text with a function map cut off after 0..3 complete values",
    assumptions=COMMON_ASSUMPTIONS,
)

def _corrupt_map(e):
    o = e["out"]
    if e["op"] == "bigline":
        o["flags2"] = o["flags2"][1:]
        return True
    if e["op"] == "encode_fail":
        o["res"] = "ok"
        return e["args"]["at"] < e["args"]["len"]
    if e["op"] == "roundtrip":
        p2 = o["p2"]
        if p2.get("toks"):
            t = p2["toks"][len(p2["toks"]) // 2]
            t[1] += 1
            return True
        o["same"] = not o["same"]
        return True
    if e["op"] == "encode_big":
        ms = o["mappings"]
        for i, sy in enumerate(ms):
            if sy < 32:
                ms[i] = (sy + 2) % 32
                return True
        return False
    if e["op"] == "encode":
        d = o["doc"]
        if d.get("mappings") and d["mappings"][0]:
            ms = d["mappings"][0]
            for i, s in enumerate(ms):
                if s < 32:
                    ms[i] = (s + 2) % 32
                    return True
        d["version"] = [4]
        return True
    if e["op"] == "lookups":
        for r in o["rs"]:
            if r:
                r[0]["tok"][1] += 1
                return True
        return False
    if e["op"] == "iterate":
        for r in o["outs"]:
            if r and isinstance(r[0], list):
                r[0][1] += 1
                return True
        return False
    if e["op"] == "ordering":
        if o["toks"]:
            o["gets"][0][1] += 1
            return True
        o["count"] += 1
        return True
    return False

def _map_ntoks(e):
    if e["op"] == "encode_big":
        return len(e["args"]["vtoks"])
    p = e["args"].get("p1") or {}
    return len(p.get("toks", [])) if isinstance(p, dict) else 0

PROPS["C01"] = dict(
    level="model_checking",
    level_text="Encoder and decoder are separate TLA+ state machines (Mappings.tla); TLC checks Decode(Encode(ts)) = Dedup(ts) for every ordered token list of a bounded grid (MC_Encode) and enumerates those lists; each is realised in the real crate three ways (SourceMap::new, SourceMapBuilder, decoding a harness-written document), serialised, decoded, serialised twice more; TLC judges the decoded projection against the specification's own write/read composition and the byte-identity flag. Seeded random flat/Hermes/index maps extend this to larger sizes and string pools.",
    level_note="JSON string escaping / number formatting are serde_json's and only observed through their round trip; positions < 2^29",
    technique="TLA+ encoder/decoder machines, TLC bounded model checking of the round-trip theorem, trace validation of real to_writer/decode_slice cycles",
    mc=[
        dict(module="MC_Encode", cfg="MC_Encode_quick.cfg", tiers=("quick",), workers=8),
        dict(module="MC_Encode", cfg="MC_Encode_thorough.cfg", tiers=("thorough",), workers=14, timeout=3400, heap="24g"),
    ],
    trace="Trace_Map",
    drive=dict(quick=dict(n=600, size=4), thorough=dict(n=12000, size=10)),
    nontrivial=lambda e: e["out"].get("k") == "ok" and (_map_ntoks(e) >= 2 or e["args"]["p1"].get("kind") == "index"),
    corrupt=_corrupt_map,
    rule="cases: every ordered token list of MC_Encode (<= MaxToks tokens over Lines x Cols with 5 payload kinds, duplicates and shared positions), each built via new/builder/doc; seeded random models (<= ~50..120 tokens, duplicate/empty/unicode strings, roots, contents, ignore lists, debug ids) and random Hermes / nested index documents; distinct = distinct (how, model); non-trivial = >= 2 tokens or an index map; every model also through a setters route (set_source_root / set_source / set_source_contents / set_file / add_to_ignore_list after construction); column and original-position deltas from every VLQ digit-count class; generated source / root names of mixed UTF-8 width; names spelled like sources; sections sharing an offset; round 8: remove_names() in the setters route, a builder fed through add / add_raw / add_token in scrambled order, index maps without sections, Hermes documents with unparsable function maps; round 9: the written form re-read through readers that deliver uneven pieces, single bytes and 8191-byte pieces (reads ending inside multi-byte characters)",
    assumptions=COMMON_ASSUMPTIONS,
)

PROPS["C03"] = dict(
    level="model_checking",
    level_text="The crate's serialised output is parsed with serde_json::Value into an abstract document and judged by TLC with the INDEPENDENT decoder machine of Mappings.tla: version 3, mappings decode to exactly the map's tokens (minus exact duplicates), sources+sourceRoot/names/sourcesContent/file/ignoreList/debug_id carry the map's values, the five optional keys are absent (not null) when unset, recursively for sections with their offsets. Maps come from the TLC-enumerated universe (three construction routes) and from rewrite, flatten, adjust_mappings and to_data_url.",
    level_note="the expected token list is what the crate reports through tokens(): C03 judges the writer, the producers are judged by C04/C08/C09/C10",
    technique="TLA+ independent decoder applied by TLC to the real encoder's output (trace validation), universe enumerated by TLC (MC_Encode)",
    mc=[
        dict(module="MC_Encode", cfg="MC_Encode_quick.cfg", tiers=("quick",), workers=8),
        dict(module="MC_Encode", cfg="MC_Encode_thorough.cfg", tiers=("thorough",), workers=14, timeout=3400, heap="24g"),
    ],
    trace="Trace_Map",
    drive=dict(quick=dict(n=500, size=4), thorough=dict(n=10000, size=10)),
    nontrivial=lambda e: e["out"].get("k") == "ok" and (_map_ntoks(e) >= 2 or e["args"].get("p1", {}).get("kind") == "index"),
    corrupt=_corrupt_map,
    rule="cases: as C01, plus seeded maps with FULL-RANGE 32-bit positions (columns/lines at 0, 2^31+-1, 2^32-1, deltas up to +-(2^32-1)) whose mappings text is decoded by the specification with exact bit-list arithmetic (Mappings!DecodeV); per realised map the direct serialisation plus the serialisations of rewrite(default), adjust_mappings(self), flatten (index maps) and the to_data_url payload; distinct = distinct (how, via, map projection); non-trivial = >= 2 tokens or an index map; every map also written into a short-write sink (1/7/64/4096 bytes per call, interrupted calls); the crate's placeholder strings in the pools; round 8: remove_names() in the setters route, builder_mixed route; round 9: sinks that FAIL at byte 0 / the middle / the last byte (to_writer must report it)",
    assumptions=COMMON_ASSUMPTIONS,
)

PROPS["C04"] = dict(
    level="model_checking",
    level_text="The lookup algorithm of the code (binary search with an arbitrary probe inside the window, walk back over equal keys, insertion index - 1 when absent) is a TLA+ state machine and TLC checks that it refines the declarative relation LookupOK for every ordered position list (repetitions included) and every query of a bounded grid (incl. u32::MAX stand-ins). Every enumerated list is built in the real crate three ways and queried at every grid position; ordering/get_token agreement is observed for maps produced by decoding, builder, raw constructor, rewrite, flatten, adjust_mappings and reload; the token iterator is a cursor machine (TokenIter.tla: next / nth / size_hint, then skip / step_by / last / count / collect) whose one-next-at-a-time form TLC checks against closed forms for every bounded session, each replayed on the real iterator; TLC judges every answer.",
    level_note="'first token at that position in iteration order' is judged against the crate's own observed iteration order, as the statement says (the sort is unstable)",
    technique="TLA+ binary-search machine refining a declarative lookup relation (MC_Lookup) and iterator cursor machine (MC_TokenIter), TLC bounded model checking, replay of TLC-enumerated cases and trace validation of real lookup_token/tokens()/get_token results",
    mc=[
        dict(module="MC_Lookup", cfg="MC_Lookup_quick.cfg", tiers=("quick",), workers=8),
        dict(module="MC_Lookup", cfg="MC_Lookup_thorough.cfg", tiers=("thorough",), workers=14, timeout=3400, heap="24g"),
        dict(module="MC_TokenIter", cfg="MC_TokenIter_quick.cfg", tiers=("quick",), workers=4),
        dict(module="MC_TokenIter", cfg="MC_TokenIter_thorough.cfg", tiers=("thorough",), workers=8),
    ],
    proofs=[dict(file="proofs/PosOrder.tla",
                 claim="the order on generated positions used by every lookup is a total preorder with PosLt as its strict part, and the greatest position not after a query is unique (unbounded, TLAPS/SMT)"),
            dict(file="proofs/GlbSearch.tla",
                 claim="the binary search of the lookup machine (arbitrary probe inside the window) over an ordered token list of ANY length: the window invariant is inductive, a hit lies inside the list, and a closed window is exactly the insertion index -- every position before it is before the query, none after it is, and the query is absent (unbounded, TLAPS/SMT)")],
    trace="Trace_Map",
    drive=dict(quick=dict(n=300, size=4), thorough=dict(n=6000, size=12)),
    nontrivial=lambda e: e["out"].get("k") == "ok" and ((e["op"] in ("lookups", "iterate") and len(e["args"]["toks"]) >= 2) or (e["op"] == "ordering" and len(e["out"]["toks"]) >= 2)),
    corrupt=_corrupt_map,
    rule="cases: every iterator session of MC_TokenIter (<= MaxSteps stepping calls + one consuming call); every ordered position list of MC_Lookup (<= MaxToks tokens, repetitions) x 25 queries (grid, off-grid, u32::MAX), three construction routes; seeded random maps (<= ~100..300 tokens, heavy position sharing) and index documents, each also through rewrite / adjust_mappings / reload / flatten, ~34 queries each around tokens; distinct = distinct (map, query list); non-trivial = map with >= 2 tokens; builder_mixed route: add / add_raw / add_token on one builder in scrambled order",
    assumptions=COMMON_ASSUMPTIONS,
)

PROPS["C07"] = dict(
    level="model_checking",
    level_text="Range flags are part of the encoder/decoder machines (bit = segment index within the line, 6 bits per base64 digit): TLC checks on MC_Encode (WithRange) that the spec's reader recovers every flag assignment from the spec's writer, and on MC_Lookup (WithRange) that the lookup algorithm reports sc + (c - dc) exactly for range tokens hit on their own line. Every enumerated assignment is serialised/decoded by the real crate and every enumerated (map, query) is looked up; TLC judges flags after the round trip and the reported original positions; structured long lines (up to 70 tokens, bits >= 16) come from the seeded driver.",
    level_note="bit positions are defined by EMITTED segments (the writer drops exact duplicate tokens); lookups at u32::MAX columns are judged only for >=",
    technique="TLA+ range-bit field in the encoder/decoder machines + lookup relation, TLC bounded model checking, trace validation of real round trips and lookups",
    mc=[
        dict(module="MC_Encode", cfg="MC_Encode_range_quick.cfg", tiers=("quick",), workers=8),
        dict(module="MC_Lookup", cfg="MC_Lookup_range_quick.cfg", tiers=("quick",), workers=8),
        dict(module="MC_Encode", cfg="MC_Encode_range_thorough.cfg", tiers=("thorough",), workers=14, timeout=3400, heap="24g"),
        dict(module="MC_Lookup", cfg="MC_Lookup_range_thorough.cfg", tiers=("thorough",), workers=14, timeout=3400, heap="24g"),
    ],
    trace="Trace_Map",
    drive=dict(quick=dict(n=500, size=4), thorough=dict(n=10000, size=8)),
    nontrivial=lambda e: e["out"].get("k") == "ok" and ((e["op"] == "lookups" and any(t[6] for t in e["args"]["toks"])) or (e["op"] == "roundtrip" and any(t[6] for t in e["args"]["p1"].get("toks", []))) ),
    corrupt=_corrupt_map,
    rule="cases: every flag assignment of MC_Encode/MC_Lookup with WithRange (all subsets of flags on lists of <= MaxToks tokens over the grid, empty leading lines) x all grid queries; seeded: single lines of up to 70 tokens with random flag density and neighbours on other lines, random models with range flags; distinct = distinct (op, args); non-trivial = the map has at least one range token; round 9: one line of 2^16 - 3 .. 2^16 + 4000 (now and then 2^17) segments with flags on both sides of segment 65536, judged by the flag-preservation relation (bigline)",
    assumptions=COMMON_ASSUMPTIONS,
)

def _corrupt_c19(e):
    c = e["out"]["comps"]
    if c == [-2]:
        e["out"]["comps"] = [-1]
    elif c[-1] > 0:
        c[-1] = c[-1] % 3 + 1 if c[-1] % 3 + 1 != c[-1] else c[-1] + 1
    else:
        c.append(-1)
    return True

PROPS["C19"] = dict(
    level="model_checking",
    level_text="The property is a relation (resolving the result against the base file's directory gives the target; '.' only for the directory itself). The algorithm is a TLA+ state machine (prefix scan, one '..' per remaining level, rest of the target) and TLC checks it satisfies the relation for every pair of paths of 1..MaxLen components over 3 names (every shared-prefix length, shallower/equal/deeper/unrelated targets), absolute and relative, both separators. Every pair is run through the real make_relative_path and TLC evaluates the relation on the returned string split at separators.",
    level_note="only ordinary components are generated, as in the property; a result component that is not a pool name (e.g. two names glued together) is the distinct value UNKNOWN",
    technique="TLA+ relation + algorithm machine (RelPath.tla), TLC bounded model checking, trace validation of real make_relative_path results",
    mc=[
        dict(module="MC_RelPath", cfg="MC_RelPath_quick.cfg", tiers=("quick",), workers=8),
        dict(module="MC_RelPath", cfg="MC_RelPath_thorough.cfg", tiers=("thorough",), workers=14, timeout=3400, heap="24g"),
    ],
    trace="Trace_C19",
    drive=dict(quick=dict(n=5000, size=4), thorough=dict(n=200000, size=6)),
    nontrivial=lambda e: len(e["args"]["base"]) + len(e["args"]["target"]) >= 3,
    corrupt=_corrupt_c19,
    rule="cases: all pairs of paths of 1..MaxLen (3 quick / 5 thorough) components over 3 names x {absolute, relative} x {'/', '\\\\'}; seeded random pairs of 1..6 components over pools of 2..5 names incl. names with spaces, dots and non-ASCII; distinct = distinct (base, target, abs, sep); non-trivial = at least 3 components in total; abstract names concretised by confusable strings (case, prefix extension, composed/decomposed accents); aliased arguments (slices of one buffer); separators written twice (the same ones in both paths, or independently)",
    assumptions=COMMON_ASSUMPTIONS,
)

def _corrupt_c20(e):
    o = e["out"]
    for g in o.get("gets", []):
        if g["k"] == "ok":
            g["v"] = g["v"] + [1]
            return True
    if o["startup"]["k"] == "ok":
        o["startup"]["v"] = o["startup"]["v"] + [9]
        return True
    o["count"] += 1
    return True

PROPS["C20"] = dict(
    level="model_checking",
    level_text="RamBundle.tla has a writer (Layout of a bundle model in any physical order) and a declarative reader (recognition, module count, startup code, get_module, iterator) with 32-bit fields kept as bytes; TLC checks reader o writer = identity on every small model and that no ok result exceeds the buffer, and enumerates every model x every single corruption (truncation at every length, each count/size/offset/length field set to boundary and near-2^32 values, wrong magic). Every byte string is parsed by the real crate and every access is judged by TLC; seeded bundles of up to 50 modules with random corruptions extend the sizes.",
    level_note="an empty read exactly at the end of the buffer (scroll reports BadOffset) is left free: the statement does not decide it; the module iterator is observed for ids < 64",
    technique="TLA+ writer/reader specification of the bundle layout, TLC bounded model checking + fault enumeration, trace validation of real parse/get_module/iter_modules results",
    mc=[
        dict(module="MC_RamBundle", cfg="MC_RamBundle_quick.cfg", tiers=("quick",), workers=8),
        dict(module="MC_RamBundle", cfg="MC_RamBundle_thorough.cfg", tiers=("thorough",), workers=14, timeout=3400, heap="24g"),
    ],
    trace="Trace_C20",
    selftest_min=0.8,   # a corrupted empty read at the end of the buffer is legitimately unobservable ("free")
    drive=dict(quick=dict(n=3000, size=4), thorough=dict(n=100000, size=8)),
    nontrivial=lambda e: len(e["args"]["bytes"]) >= 12,
    corrupt=_corrupt_c20,
    rule="cases: every model of MC_RamBundle (0..MaxSlots slots from {empty, NUL-only, 1 byte, non-UTF-8 with embedded NUL}, 2-3 startup codes, every physical order) laid out and left intact or hit by one corruption (truncation at every length; each header/table field set to 0, 1, len-12, len, len+1, 2^31-1, 2^31, 2^32-1, 2^32-sco, 2^32-sco-1; each magic byte changed); seeded random bundles (<= 50 modules) with random truncation / field / magic / byte corruptions; distinct = distinct byte string; non-trivial = at least a complete header; one cursor session on the module iterator; fields written in the other byte order; payloads beginning or ending with bytes meaningful elsewhere",
    assumptions=COMMON_ASSUMPTIONS + ["harness built with feature ram_bundle; unbundle (file system) bundles are out of scope"],
)

def _corrupt_c12(e):
    o = e["out"]
    if e["op"] == "reader":
        if o["err"]:
            o["err"] = False
        else:
            o["delivered"] = o["delivered"] + [33]
        return True
    if e["op"] == "decode":
        o["is_reader"] = not o["is_reader"]
        return True
    return False

PROPS["C12"] = dict(
    level="model_checking",
    level_text="The streaming header reader is a TLA+ state machine whose state lives across reads; TLC explores EVERY chunking of every input of up to MaxLen byte classes (junk start bytes, CR, LF, other) and checks reader = declarative meaning = slice function (up to the kept newline), errors included. Every (input, chunking) is replayed on the real StripHeaderReader (hook H2) with a chunk-serving inner reader and the delivered bytes are compared with the machine run on the served chunk sizes; the same schedules in front of real documents compare decode vs decode_slice vs decode_data_url and is_sourcemap vs is_sourcemap_slice.",
    level_note="serde_json and base64 are behind both paths and only their outcomes are compared",
    technique="TLA+ reader state machine with nondeterministic short reads (HeaderReader.tla), TLC exhaustive over chunkings, trace validation replaying the recorded read schedule through the machine",
    mc=[
        dict(module="MC_HeaderReader", cfg="MC_HeaderReader_quick.cfg", tiers=("quick",), workers=8),
        dict(module="MC_HeaderReader", cfg="MC_HeaderReader_thorough.cfg", tiers=("thorough",), workers=14, timeout=3400, heap="24g"),
    ],
    trace="Trace_C12",
    drive=dict(quick=dict(n=1500, size=3), thorough=dict(n=40000, size=6)),
    nontrivial=lambda e: (e["op"] == "reader" and len(e["args"]["input"]) >= 2) or (e["op"] == "decode" and len(e["args"]["bytes"]) > 10),
    corrupt=_corrupt_c12,
    rule="cases: every input of <= MaxLen (5 quick / 6 thorough) bytes over {')', \"'\", CR, LF, 'x'} x every chunking (TLC InnerRead with any k), each also in front of a real document; seeded: every junk start byte, garbage incl. non-ASCII, \\n / \\r\\n / bare \\r / \\r x \\n endings, header only, valid / truncated / corrupted regular, Hermes and index documents, chunk schedules with 1-byte reads and boundaries at/inside the header end; distinct = distinct (op, args); non-trivial = >= 2 input bytes (reader) or a document (decode); JSON front-end members (non-UTF-8 / lone-surrogate / out-of-range values of unknown keys, deep nesting, repeated known keys); long junk lines whose terminator sits at offset 8190..8193 (mod 8192), read in full buffers or with a read ending at / before the '\\r'; sources that deliver a proper prefix (nothing, half, all but the last byte) and then FAIL with a hard error: no map may come out when the prefix, read as a slice, is none",
    assumptions=COMMON_ASSUMPTIONS + ["hook H2 (cfg sourcemap_verif) re-exports StripHeaderReader/strip_junk_header; add-only"],
)
HOOK_COMMITS.append("95aad40")

def _corrupt_c15(e):
    r = e["out"]["ret"]
    if isinstance(r, int):
        e["out"]["ret"] = r + 1
    elif r == []:
        e["out"]["ret"] = [[120]]
    elif e["op"] == "lines":
        e["out"]["ret"] = r + [[]]
    else:
        e["out"]["ret"] = [r[0] + [120]]
    return True

PROPS["C15"] = dict(
    level="model_checking",
    level_text="SourceView.tla gives the declarative split (CR LF, LF, lone CR; trailing terminator => final empty line) and the lazy line index as a state machine; TLC checks for every text of <= MaxText characters over {LF, CR, 'a', astral} and every request history of depth <= Depth that each answer equals the history-independent declarative one and the index stays a consistent prefix; UTF-16 slices for all (line, c, n) incl. u32::MAX. Every history is executed on a fresh real SourceView and the STATEFUL trace spec steps the machine call by call comparing each return value.",
    level_note="text positions are code points (UTF-8 byte offsets are not observable); Unicode beyond the sampled code points is not modelled",
    technique="TLA+ lazy-index state machine + declarative line/slice semantics, TLC exhaustive over texts x histories, stateful trace validation of real get_line/line_count/lines/get_line_slice calls",
    mc=[
        dict(module="MC_SourceView", cfg="MC_SourceView_quick.cfg", tiers=("quick",), workers=8),
        dict(module="MC_SourceView", cfg="MC_SourceView_slices_quick.cfg", tiers=("quick",), workers=8),
        dict(module="MC_SourceView", cfg="MC_SourceView_thorough.cfg", tiers=("thorough",), workers=14, timeout=3400, heap="24g"),
        dict(module="MC_SourceView", cfg="MC_SourceView_slices_thorough.cfg", tiers=("thorough",), workers=14, timeout=3400, heap="24g"),
    ],
    trace="Trace_C15",
    drive=dict(quick=dict(n=1500, size=4), thorough=dict(n=30000, size=7)),
    nontrivial=lambda e: len(e["args"]["text"]) >= 2,
    corrupt=_corrupt_c15,
    rule="cases: every text of <= MaxText chars over {LF, CR, 'a', U+1F60D} x every history of Depth requests over get_line(0..MaxText+1), line_count, lines (TLC), every (line, c, n) slice with c, n in {0..3, u32::MAX}; seeded texts of up to ~200 chars (2/3/4-byte characters, CR/LF mixes) with up to 50 requests incl. extreme slices; distinct = distinct (op, args) ; non-trivial = text of >= 2 characters; clone calls in histories; long-line segment family (byte lengths 2^k-2..2^k+2, k=6..13) judged through SegLemma / SegSliceLemma; slice walks along one astral-dense line (each slice starts where the previous one ended, +-1, or again)",
    assumptions=COMMON_ASSUMPTIONS,
)

PROPS["C16"] = dict(
    level="model_checking",
    level_text="SourceViewConc.tla models the shared view (mutex with poisoning, atomic progress counter, cache) with one action per step of get_line/line_count. TLC explores every interleaving: the current single-acquisition algorithm satisfies Safe (every answer = sequential oracle, no panic), LockDiscipline and Progress; the pinned split algorithm must be (and is) refuted by TLC (sensitivity self-test). Every interleaving of the split algorithm's steps is dumped as a thread schedule and replayed on real threads sharing one SourceView, hook H1's yield points parking each thread until the scheduler hands it the turn; results, panics and deadlock are judged by TLC against the sequential oracle. Free-running stress on real threads is judged the same way.",
    level_note="relaxed loads are modelled as reading the current value; the real threads run on x86 under a serialising scheduler, so weak-memory effects are not explored; a replay step that does not return within 20 ms is treated as 'blocked on the mutex' and the scheduler moves on (no verdict is drawn from it); the yield sequence is never compared, only results",
    technique="TLA+ concurrent model with explicit Panic/poison transitions, TLC exhaustive interleavings + Buggy-config self-test, schedule replay on real threads via guarded yield hooks, trace validation against the sequential oracle",
    mc=[
        dict(module="MC_SVConc", cfg="MC_SVConc_current_quick.cfg", tiers=("quick",), workers=8, gen=False),
        dict(module="MC_SVConc", cfg="MC_SVConc_buggy.cfg", tiers=("quick", "thorough"), workers=4, gen=False, expect="Safe"),
        dict(module="MC_SVConc", cfg="MC_SVConc_gen_quick.cfg", tiers=("quick",), workers=8),
        dict(module="MC_SVConc", cfg="MC_SVConc_clone_quick.cfg", tiers=("quick", "thorough"), workers=8, gen=False),
        dict(module="MC_SVConc", cfg="MC_SVConc_genclone_quick.cfg", tiers=("quick", "thorough"), workers=8),
        dict(module="MC_SVConc", cfg="MC_SVConc_current_thorough.cfg", tiers=("thorough",), workers=14, gen=False, timeout=3400, heap="24g"),
        dict(module="MC_SVConc", cfg="MC_SVConc_gen_thorough.cfg", tiers=("thorough",), workers=14, timeout=3400, heap="24g"),
        # 2 threads x 2 calls and 3 threads x 1 call have 10^5..10^6 interleavings: sampled by TLC's simulator
        dict(module="MC_SVConc", cfg="MC_SVConc_gen22_sim.cfg", tiers=("thorough",), workers=1, timeout=1200, simulate=("num=15000", 60), timeout_ok=True),
        dict(module="MC_SVConc", cfg="MC_SVConc_gen3_thorough.cfg", tiers=("thorough",), workers=1, timeout=1200, simulate=("num=15000", 60), timeout_ok=True),
    ],
    trace="Trace_C16",
    drive=dict(quick=dict(n=400, size=3), thorough=dict(n=8000, size=5)),
    nontrivial=lambda e: e["op"] != "end" and len(e["args"]["text"]) >= 1,
    corrupt=_corrupt_c15,
    corruptible=lambda e: e["op"] != "end",
    rule="cases: every interleaving (TLC, no VIEW: the schedule is part of the state) of 2 threads x 1 call (quick) / 2 threads x <=2 calls and 3 threads x 1 call (thorough) over get_line(0..2) and line_count on texts with 0..3 lines, replayed as thread schedules on real threads; seeded: 2..4 threads x 1..3 calls (get_line, line_count, lines) under random schedules and free-running; distinct = distinct (call, text, thread); non-trivial = non-empty text; threads that go on with their own clone of the view (MC_SVConc clone configs and driver); hook H1's fourth yield point (inside the indexing loop, between the progress update and the push) lets schedules park a thread in the half-updated state",
    assumptions=COMMON_ASSUMPTIONS + ["hook H1 (cfg sourcemap_verif): three yield points in SourceView::get_line calling a thread-local callback; add-only, no-op without a callback"],
)
HOOK_COMMITS.append("59fd72d")
HOOK_COMMITS.append("cd1eed8")   # fourth yield point, inside the indexing loop

def _corrupt_c13(e):
    o = e["out"]
    if e["op"] in ("add_source", "add_name"):
        o["ret"] += 1
        return True
    if e["op"] in ("add", "add_raw"):
        o["ret"][2] += 1
        return True
    if o.get("obs"):
        ob = o["obs"][0]
        if ob["sources"]:
            ob["sources"][0] = ob["sources"][0] + [120]
        else:
            ob["doc_root"] = [[120]]
        return True
    return False

PROPS["C13"] = dict(
    level="model_checking",
    level_text="Builder.tla is the interning model: every builder / map call is a function state x call -> (state, return value). TLC explores every history of <= Depth builder calls + into_sourcemap + <= MapDepth map setter calls over pools with duplicate, empty, absolute and URL strings and roots with/without trailing '/', checking that interning tables never hold duplicates, ids are stable and tokens always resolve. Every history is executed call by call on a real SourceMapBuilder / SourceMap and the STATEFUL trace spec steps the model with each recorded call, comparing returned ids / raw tokens and, once the map exists, the full observation after every call: sources = raw joined with the current root, serialised sources = raw names, sourceRoot = root, also across save/load cycles.",
    level_note="set_source on the builder and load_local_source_contents are outside the quantified call set",
    technique="TLA+ interning state machine, TLC exhaustive over call histories, stateful trace validation of real builder/map calls",
    mc=[
        dict(module="MC_Builder", cfg="MC_Builder_quick.cfg", tiers=("quick",), workers=8),
        dict(module="MC_Builder", cfg="MC_Builder_thorough.cfg", tiers=("thorough",), workers=14, timeout=3400, heap="24g"),
    ],
    trace="Trace_C13",
    drive=dict(quick=dict(n=1200, size=3), thorough=dict(n=8000, size=8)),
    nontrivial=lambda e: e["op"] not in ("set_file", "set_debug_id"),
    corrupt=_corrupt_c13,
    corruptible=lambda e: e["op"] in ("add_source", "add_name", "add", "add_raw") or bool(e["out"].get("obs")),
    rule="cases: every history of MC_Builder (Depth builder calls from ~40 enabled calls, into_sourcemap, MapDepth map calls from ~25) ; seeded histories of up to ~100 builder calls over pools of 15 sources / 7 roots / 7 names followed by up to ~30 map setter / saveload calls; distinct = distinct (call, position in history); non-trivial = any call other than set_file/set_debug_id; per-case string pools (generated mixed-width names, 18..80 distinct sources revisited, names composed out of the roots in play); the builder's own getters observed after every builder call",
    assumptions=COMMON_ASSUMPTIONS,
)

def _corrupt_c10(e):
    t = e["out"]["toks"]
    if t:
        t[len(t) // 2][3] += 1
    else:
        t.append([0, 0, -1, 0, 0, -1, 0])
    return True

PROPS["C10"] = dict(
    level="model_checking",
    level_text="Adjust.tla states the composition declaratively (one token per non-empty overlap of an original stretch with an adjustment stretch, displaced and carrying the original payload) and transcribes the two-pointer sweep as a state machine; TLC checks the sweep against the declarative relation on every pair of small token lists over a grid (adjustment tokens with 4 displacements incl. multi-line) and enumerates the pairs, with and without duplicated positions. Every pair is composed by the real crate (tokens handed over in shuffled order) and the result is judged by TLC against the DECLARATIVE relation, so a wrong sweep condition in the code shows; seeded 50x50 grids with up to ~60 tokens a side.",
    level_note="displacements are kept non-negative (negative results wrap in the crate and are outside the statement); the duplicate-position universe is enumerated without the sweep=declarative invariant, because the sweep as transcribed from the pinned code is exactly what violates the relation there (finding F11)",
    technique="TLA+ declarative interval composition + sweep machine (Adjust.tla), TLC bounded model checking, trace validation of real adjust_mappings results against the declarative relation",
    mc=[
        dict(module="MC_Adjust", cfg="MC_Adjust_quick.cfg", tiers=("quick",), workers=8),
        dict(module="MC_Adjust", cfg="MC_Adjust_dups_quick.cfg", tiers=("quick",), workers=8),
        dict(module="MC_Adjust", cfg="MC_Adjust_thorough.cfg", tiers=("thorough",), workers=14, timeout=3400, heap="24g"),
        dict(module="MC_Adjust", cfg="MC_Adjust_dups_thorough.cfg", tiers=("thorough",), workers=14, timeout=3400, heap="24g"),
    ],
    chunk=2500,        # composition events are expensive to judge (~0.1..0.3 s each): small chunks keep the 4 validation JVMs busy
    trace="Trace_C10",
    drive=dict(quick=dict(n=1500, size=3), thorough=dict(n=20000, size=5)),
    nontrivial=lambda e: len(e["args"]["orig"]) >= 1 and len(e["args"]["adj"]) >= 1,
    corrupt=_corrupt_c10,
    rule="cases: every (orig, adj) of MC_Adjust: <= MaxO original and <= MaxA adjustment tokens over Lines x Cols, adjustment displacements {(0,0),(0,2),(1,0),(1,1)}, without and with duplicated positions; seeded random pairs on grids up to 50x50 with up to ~56 tokens a side, a third of them with duplicated positions, tokens handed to the crate in shuffled order; distinct = distinct (orig, adj); non-trivial = both maps non-empty; adjustment tokens without a source / with another source / with a name; debug ids and roots on either map (equal, different, absent); range flags on adjustment tokens",
    assumptions=COMMON_ASSUMPTIONS,
)

def _corrupt_c09(e):
    p2 = e["out"]["p2"]
    if p2["toks"]:
        p2["toks"][0][4] += 1
    elif p2["sources"]:
        p2["sources"][0] = p2["sources"][0] + [120]
    else:
        p2["file"] = ["zz"]
    return True

PROPS["C09"] = dict(
    level="model_checking",
    level_text="Rewrite.tla defines rewrite on top of the interning builder model: one step per token (re-add with the joined source name, optional name, contents following the name), then first-match prefix stripping. TLC runs the loop step by step on every small map x option combination and checks the statement's consequences on the model: same positions and resolution (minus stripped prefix, names dropped iff asked), nothing unreferenced, no duplicates before stripping, contents attached to the same names iff kept. Every enumerated (map, options) and seeded larger ones are rewritten by the real crate and the full projection of the result is compared by TLC with the specification's; Hermes maps additionally keep every token's enclosing function.",
    level_note="'~' (common prefix) and load_local_source_contents are outside the property's quantifier; the ignore list is not part of the statement",
    technique="TLA+ rewrite loop over the interning builder model, TLC bounded model checking of the resolution-preservation consequences, trace validation of real rewrite results",
    mc=[
        dict(module="MC_Rewrite", cfg="MC_Rewrite_quick.cfg", tiers=("quick",), workers=8),
        dict(module="MC_Rewrite", cfg="MC_Rewrite_thorough.cfg", tiers=("thorough",), workers=14, timeout=3400, heap="24g"),
    ],
    trace="Trace_C09",
    drive=dict(quick=dict(n=800, size=3), thorough=dict(n=16000, size=8)),
    nontrivial=lambda e: e["out"].get("k") == "ok" and len(e["args"]["p1"].get("toks", [])) >= 1,
    corrupt=_corrupt_c09,
    rule="cases: every map of MC_Rewrite (3 source tables with a duplicate name / an unreferenced entry / order different from first use, names with a duplicate, 3 content patterns, <= MaxToks tokens) x {names} x {contents} x 5 prefix lists, built via the raw constructor and via decoding; seeded random maps (roots, duplicate/absolute/URL sources, partial contents) with random explicit prefixes and Hermes documents with one function map per source; distinct = distinct (map projection, options); non-trivial = at least one token",
    assumptions=COMMON_ASSUMPTIONS,
)

def _corrupt_c14(e):
    o = e["out"]
    sc = o["p"]["scopes"]
    for i, s in enumerate(sc):
        if s:
            sc[i] = []
            o["scopes2"][i] = []
            return True
    if sc:
        sc[0] = ["zz"]
        o["scopes2"][0] = ["zz"]
        return True
    o["line1"] = ["zz"]
    return True

PROPS["C14"] = dict(
    level="model_checking",
    level_text="Hermes.tla reads Metro's function-map format independently: a symbol-level decoder machine (wire lines, column reset, optional name/line deltas, any VLQ error disables the function map) and ScopeAt = name of the last entry at or before (1-based line, column). TLC runs the machine over every text of a segment alphabet and checks fold = machine, 'unparsable disables', one entry per segment, and enumerates the texts. Each text is embedded in a real Hermes document whose tokens cover a grid of original positions; get_scope_for_token for every token and get_original_function_name for every bytecode offset are judged by TLC, before and after a serialise/decode cycle; seeded documents add null/empty/unparsable metadata, out-of-range name indices and several sources.",
    level_note="function maps whose entries are not in (line, column) order are outside 'well-formed': for them only successful decoding and stability under the cycle are demanded",
    technique="TLA+ function-map decoder machine + declarative scope lookup (Hermes.tla), TLC bounded model checking, trace validation of real scope answers",
    mc=[
        dict(module="MC_Hermes", cfg="MC_Hermes_quick.cfg", tiers=("quick",), workers=8),
        dict(module="MC_Hermes", cfg="MC_Hermes_thorough.cfg", tiers=("thorough",), workers=14, timeout=3400, heap="24g"),
    ],
    trace="Trace_C14",
    drive=dict(quick=dict(n=800, size=3), thorough=dict(n=16000, size=6)),
    nontrivial=lambda e: e["out"].get("k") == "ok" and any(s for s in e["out"]["p"]["scopes"]),
    corrupt=_corrupt_c14,
    rule="cases: every function-map text of MC_Hermes (<= MaxSegs segments from 8 kinds incl. omitted trailing fields, name index driven out of range, unterminated and foreign-byte segments; ',' ';' ';;') embedded in a 2-source document with 22 tokens over a 4x5 grid of original positions, 36 bytecode offsets; seeded Hermes documents with 1..3 sources, null / empty / unparsable / multi-line function maps; distinct = distinct document; non-trivial = at least one token resolves to a function name; surplus segment fields, empty-but-present function names, a null source entry",
    assumptions=COMMON_ASSUMPTIONS,
)

def _corrupt_c08(e):
    o = e["out"]
    if o["flat"]["k"] == "ok" and o["flat"]["p"]["toks"]:
        o["flat"]["p"]["toks"][0][1] += 1
        return True
    for r in o["idx"]:
        if r:
            r[0]["sl"] += 1
            return True
    o["flat"]["k"] = "err" if o["flat"]["k"] == "ok" else "ok"
    return True

PROPS["C08"] = dict(
    level="model_checking",
    level_text="IndexMap.tla defines flattening (every section's tokens re-added through the interning builder model, moved down by the line offset and right by the column offset on the first line only, first-seen contents, ignore-list membership by source name, nested indexes recursively, unresolved section = error) and section lookup (greatest offset not after the position, position made section-relative). TLC checks the property's theorem on every small well-formed index x query: whenever the index lookup finds a token, the flattened map finds the same original location. Every enumerated index and seeded larger/nested ones are decoded by the real crate; flatten() and every lookup on the index and on the flattened map are judged by TLC.",
    level_note="indexes whose sections overlap the next section's offset are outside the quantifier: for them only flatten is judged; tokens inside a section are strictly ordered in the judged maps",
    technique="TLA+ flatten/lookup specification over the builder model with the agreement theorem model-checked by TLC, trace validation of real flatten()/lookup_token results",
    mc=[
        dict(module="MC_IndexMap", cfg="MC_IndexMap_quick.cfg", tiers=("quick",), workers=8),
        dict(module="MC_IndexMap", cfg="MC_IndexMap_thorough.cfg", tiers=("thorough",), workers=14, timeout=3400, heap="24g"),
    ],
    trace="Trace_C08",
    drive=dict(quick=dict(n=1200, size=3), thorough=dict(n=8000, size=6)),
    nontrivial=lambda e: e["out"].get("k") == "ok" and len(e["args"]["p"].get("sections", [])) >= 1,
    corrupt=_corrupt_c08,
    rule="cases: every well-formed index of MC_IndexMap (<= MaxSecs sections at offsets from {(0,0),(0,4),(1,2),(2,0)}, section maps: empty / one token / two lines with a name, shared source names, partial contents and an ignore list / sourceless + range token; unresolved sections; one nested index in thorough) x 40 grid queries; seeded: up to 12 sections (30 tokens each), mid-line starts, Hermes sections, nested indexes to depth 2, 40 random queries; distinct = distinct (index projection, queries); non-trivial = at least one section; names, many-section (18..80) and wide-offset families, source roots in section maps, queries around section starts; the same index observed again after get_section_mut changes and after clone",
    assumptions=COMMON_ASSUMPTIONS,
)

def _corrupt_c18(e):
    o = e["out"]
    if e["op"] == "locate":
        if o["reader"]:
            o["reader"][0]["legacy"] = not o["reader"][0]["legacy"]
        else:
            o["reader"] = [{"legacy": False, "url": [120]}]
        return True
    if e["op"] == "detect":
        o["detect_slice"] = not o["detect_slice"]
        return True
    if e["op"] == "dataurl":
        if o["direct"].get("toks"):
            o["direct"]["toks"][0][1] += 1
        else:
            o["found_legacy"] = not o["found_legacy"]
        return True
    return False

PROPS["C18"] = dict(
    level="model_checking",
    level_text="Detector.tla defines reference discovery declaratively (first line beginning with '//# sourceMappingURL=' or '//@ ...', URL trimmed, legacy flag) and as a line-by-line scan; TLC checks scan = declarative and 'URL is trimmed' for every file assembled from 8 line kinds x 3 endings, and that the preamble the writer emits is in the reader's accepted set. Every file is run through the reader, slice and SourceView entry points and judged by TLC; every map of the C01 universe is turned into a data URL, decoded directly and through a discovered comment, and judged with the round-trip relation of MapModel.tla; every serialised regular/index/Hermes map must be recognised by both detection predicates.",
    level_note="base64 coding of the payload is not modelled (only its round trip is observed); Unicode whitespace is the closed set WS of Detector.tla",
    technique="TLA+ declarative + scanning specification of reference discovery, TLC bounded model checking, trace validation of real locate/to_data_url/decode_data_url/is_sourcemap results",
    mc=[
        dict(module="MC_Detector", cfg="MC_Detector_quick.cfg", tiers=("quick",), workers=8),
        dict(module="MC_Encode", cfg="MC_Encode_quick.cfg", tiers=("quick",), workers=8),
        dict(module="MC_Detector", cfg="MC_Detector_thorough.cfg", tiers=("thorough",), workers=14, timeout=3400, heap="24g"),
        dict(module="MC_Encode", cfg="MC_Encode_thorough.cfg", tiers=("thorough",), workers=14, timeout=3400, heap="24g"),
    ],
    trace="Trace_C18",
    drive=dict(quick=dict(n=800, size=3), thorough=dict(n=16000, size=8)),
    nontrivial=lambda e: (e["op"] == "locate" and len(e["args"]["file"]) > 3) or e["op"] in ("dataurl", "detect"),
    corrupt=_corrupt_c18,
    rule="cases: every file of MC_Detector (<= MaxLines lines from {code, ref, legacy ref, indented, mid-line look-alike, empty URL, URL with blanks, empty line} x {LF, CRLF, no final newline}); every token list of MC_Encode as a map (three construction routes) for data URLs and detection; seeded files (case/spacing look-alikes, lone CR, non-ASCII blanks, data: URLs) and random flat/Hermes/index maps; distinct = distinct (op, args); non-trivial = file longer than 3 characters or any map event; near-miss marker lines; reference discovery through a short-read source; views with a history (line index built completely / partly, slices, clone, asked twice, from_string)",
    assumptions=COMMON_ASSUMPTIONS,
)

def _corrupt_c17(e):
    r = e["out"]["ret"]
    e["out"]["ret"] = [] if r else ["zz"]
    return True

PROPS["C17"] = dict(
    level="model_checking",
    level_text="NameResolve.tla fixes the character classes of a closed alphabet, defines the text of a token at a UTF-16 column (skip blanks, longest identifier prefix), the walk back over tokens and the relation ResolveOK (first token whose text is the minified name and whose predecessor's text is 'function'; nothing for non-identifiers; 128-token budget with the single boundary position left free). TLC checks walk = first pair on every single-line program assembled from 10 fragments (keyword, blanks, ASCII / 2-byte / 3-byte / astral identifiers, a joiner, punctuation) x 8 candidate names, and enumerates them. Every program is resolved by the real crate at every token (exact, inexact and later-line positions) through SourceMap, SourceMapIndex and DecodedMap, judged by TLC; seeded multi-line programs add tokens past line ends and a family with the pair 118..131 tokens back.",
    level_note="Unicode tables of unicode-id-start outside the closed alphabet are not modelled; tokens are strictly ordered in the judged maps",
    technique="TLA+ token-text and reverse-walk specification with a model-checked walk machine, trace validation of real get_original_function_name results",
    mc=[
        dict(module="MC_NameResolve", cfg="MC_NameResolve_quick.cfg", tiers=("quick",), workers=8),
        dict(module="MC_NameResolve", cfg="MC_NameResolve_thorough.cfg", tiers=("thorough",), workers=14, timeout=3400, heap="24g"),
        dict(module="MC_NameResolve", cfg="MC_NameResolve_deep_thorough.cfg", tiers=("thorough",), workers=14, timeout=3400, heap="24g"),
    ],
    trace="Trace_C17",
    drive=dict(quick=dict(n=160, size=3), thorough=dict(n=4000, size=6)),
    nontrivial=lambda e: len(e["args"]["toks"]) >= 2,
    corrupt=_corrupt_c17,
    corruptible=lambda e: True,
    rule="cases: every program of MC_NameResolve (<= MaxFrags fragments, a token on every fragment start) x 9..11 names (identifiers of every ECMAScript class incl. non-ASCII/astral/joiner/Other_ID_Start/mark, non-identifiers), queried at every token, one column right of the last and on the next line; seeded multi-line programs (several functions per line, comments with astral characters, names pointing at the blank before the identifier, tokens past the end of a line or on a missing line), 6 queries each, and the 128-budget family; distinct = distinct (op, args); non-trivial = at least 2 tokens; a representative of every ECMAScript identifier class; declarations whose token carries no name; every third resolution through a clone of the view",
    assumptions=COMMON_ASSUMPTIONS,
)

def _corrupt_c05(e):
    e["out"]["out"] = "panic"
    return True

PROPS["C05"] = dict(
    level="exploration",
    level_text="Lifecycle.tla is the API-level state machine (decode -> err | map(kind); on a map: queries, guarded serialisation, re-decoding, rewriting with every option combination, flattening) plus a fault model of documents; TLC enumerates every document kind x every set of <= MaxFaults faults (missing / repeated / null / wrongly typed keys, array length mismatches, extreme numbers 0, 2^31, 2^32-1, 2^32, -1 in offsets and indices, 7..13 digit and negative VLQ values, nesting depth 1/8/200, malformed Hermes payloads), predicts the decode outcome class where the format determines it, and model-checks the protocol facts. Each faulty document is concretised to bytes and driven through the whole life cycle on the real crate under catch_unwind, a wall-clock watchdog and an allocation counter; the STATEFUL trace spec accepts each recorded step only if Lifecycle!LStep allows it. Arbitrary bytes, JSON-ish bytes and byte-level mutations of the repository fixtures are driven through the same life cycle. This is exploration of the byte space, not model checking of it: the specification is the judge and the fault enumerator, input diversity comes from the drivers.",
    level_note="built with overflow-checks and debug-assertions on, as the property requires; a step that takes more than 20 s is 'timeout', growth beyond 256 MiB + 4 KiB per input byte is 'alloc'",
    technique="TLA+ life-cycle state machine + document fault model, TLC fault enumeration, stateful trace validation of real life cycles (panics, hangs, allocation blow-ups as data)",
    mc=[
        dict(module="MC_Lifecycle", cfg="MC_Lifecycle_quick.cfg", tiers=("quick",), workers=8),
        dict(module="MC_Lifecycle", cfg="MC_Lifecycle_thorough.cfg", tiers=("thorough",), workers=14, timeout=3400, heap="24g"),
    ],
    trace="Trace_C05",
    drive=dict(quick=dict(n=1200, size=3), thorough=dict(n=40000, size=6)),
    nontrivial=lambda e: e["op"] not in ("detect",) ,
    corrupt=_corrupt_c05,
    corruptible=lambda e: True,
    harness_timeout=7000,
    rule="cases: every (kind, fault set) of MC_Lifecycle (3 kinds x ~80 faults, pairs in thorough) concretised on base documents; seeded: arbitrary bytes, JSON-alphabet bytes, 1-4 byte-level mutations (overwrite, delete, insert structural bytes, truncate, splice extreme numbers, duplicate chunks, long VLQ runs, swap) of every repository fixture map, random regular / Hermes / nested index documents (mutated or not), random multi-fault documents; each run through detect, decode, ~all read-only queries, serialise + redecode, 16 rewrite option combinations, flatten; distinct = distinct (input digest, step); non-trivial = any step other than detection; well-formed documents of the map family (long lines with range flags, > 64 sources, every VLQ digit class) through the same life cycle; a sourceless token in the fault documents' base map; seek sessions on one TokenIter (any order, repeated, with next / nth / size_hint between); unparsable function maps; long junk lines ending next to a multiple of 8192",
    assumptions=COMMON_ASSUMPTIONS + ["fixtures are read from /repo/tests/fixtures at run time"],
)

# ---------------------------------------------------------------------------------------------
# Extensions: behaviour beyond the listed properties, specified AS FOUND.  Not in MANIFEST.json
# (the property list is fixed); `./check E01 quick` reports EXT-MISMATCH, never VIOLATION.
def _corrupt_e01(e):
    o = e["out"]
    if e["op"] == "seek":
        if o["res"]:
            o["res"][0]["found"] = not o["res"][0]["found"]
            return True
        return False
    if e["op"] == "setters":
        o["set"]["file"] = ["other.js"]
        return True
    if e["op"] == "ord":
        o["eq"] = not o["eq"]
        return True
    if e["op"] == "extras":
        o["o"]["for_ram_bundle"] = not o["o"]["for_ram_bundle"]
        return True
    if e["op"] == "render":
        if any(e["args"]["a"][k] >= 1 << 30 for k in ("dl", "dc", "sl", "sc")):
            return False
        o["alt"] = o["alt"].replace("(", "[", 1)
        return True
    return False

PROPS["E01"] = dict(
    level="model_checking",
    level_text="extension: TokenIter::seek/next, remove_names / set_file / set_debug_id and their persistence, Token Eq/Ord, RAM-bundle extras of index maps, specified as found (MapExt.tla) with two named deviations (SeekSkipsOneOnInexactHit, IndexExtrasNotSerialised)",
    level_note="beyond the listed properties; not registered in MANIFEST.json",
    technique="TLA+ as-found specification, TLC characterisation of the seek deviation, trace validation",
    mc=[dict(module="MC_MapExt", cfg="MC_MapExt_quick.cfg", tiers=("quick",), workers=8),
        dict(module="MC_MapExt", cfg="MC_MapExt_thorough.cfg", tiers=("thorough",), workers=12)],
    trace="Trace_E01",
    selftest_include_free=True,
    drive=dict(quick=dict(n=300, size=3), thorough=dict(n=5000, size=8)),
    nontrivial=lambda e: True,
    corrupt=_corrupt_e01,
    rule="every ordered position list of MC_MapExt x 20 queries; seeded maps and index documents with x_facebook_offsets / x_metro_module_paths",
    assumptions=COMMON_ASSUMPTIONS,
)

def _corrupt_e03(e):
    p2 = e["out"]["p2"]
    if p2["sources"]:
        p2["sources"][0] = p2["sources"][0] + [120]
        return True
    return False

PROPS["E03"] = dict(
    level="model_checking",
    level_text="extension: the '~' rewrite option (find_common_prefix over absolute sources, component-wise), specified as found in CommonPrefix.tla; TLC checks prefix-of-all, component boundary and split/rejoin on every list of <= MaxSrc paths from a 9-path pool",
    level_note="beyond the listed properties (C09's quantifier is 'explicit prefixes'); not registered in MANIFEST.json",
    technique="TLA+ as-found specification, TLC bounded model checking, trace validation of real rewrite('~') results",
    mc=[dict(module="MC_CommonPrefix", cfg="MC_CommonPrefix_quick.cfg", tiers=("quick",), workers=8),
        dict(module="MC_CommonPrefix", cfg="MC_CommonPrefix_thorough.cfg", tiers=("thorough",), workers=12)],
    trace="Trace_E03",
    selftest_include_free=True,
    drive=dict(quick=dict(n=2000, size=3), thorough=dict(n=40000, size=3)),
    nontrivial=lambda e: len(e["args"]["raw"]) >= 2,
    corrupt=_corrupt_e03,
    rule="every source list of MC_CommonPrefix; seeded lists over 16 paths (absolute, relative, drive letters, back-slashes, shared character but not component prefixes, non-ASCII), optional root and explicit prefixes",
    assumptions=COMMON_ASSUMPTIONS,
)

def _corrupt_e02(e):
    for m in e["out"]["mods"]:
        if m["toks"]:
            m["toks"][0][1] += 1
            return True
    if e["out"]["mods"]:
        m = e["out"]["mods"][0]
        m["k"] = "err" if m["k"] == "ok" else "ok"
        return True
    return False

PROPS["E02"] = dict(
    level="exploration",
    level_text="extension: split_ram_bundle specified as found in SplitBundle.tla (composition of IndexMap!flatten, MapExt!seek, SourceView lines/UTF-16 lengths) with two named deviations (SplitSkipsFirstToken, SplitStopsAtWideColumn); seeded bundles + index maps only (no TLC enumeration of its own: the composed operators are model-checked in their own modules)",
    level_note="beyond the listed properties; not registered in MANIFEST.json",
    technique="TLA+ as-found specification composed from IndexMap/MapExt/SourceView, trace validation of real split_ram_bundle results",
    mc=[dict(module="MC_MapExt", cfg="MC_MapExt_quick.cfg", tiers=("quick", "thorough"), workers=4, gen=False)],
    trace="Trace_E02",
    selftest_include_free=True,     # "free" marks events showing a named deviation here; they are fully judged
    drive=dict(quick=dict(n=1500, size=3), thorough=dict(n=30000, size=5)),
    nontrivial=lambda e: len(e["args"]["flat"]) >= 2,
    corrupt=_corrupt_e02,
    selftest_min=0.9,
    rule="seeded bundles of 1..5 modules (1..3 lines each, ASCII / 2-byte / astral characters, empty slots) with an index map whose sections sit at the modules' starting lines; distinct = distinct case",
    assumptions=COMMON_ASSUMPTIONS,
)

def _corrupt_e04(e):
    o = e["out"]
    if e["op"] == "typed":
        o["regular"] = "ok" if o["regular"] != "ok" else "err"
        return True
    if e["op"] == "flatten_rewrite":
        o["k"] = "err" if o["k"] == "ok" else "ok"
        return True
    o["flat1"]["k"] = "err" if o["flat1"]["k"] == "ok" else "ok"
    return True

PROPS["E04"] = dict(
    level="exploration",
    level_text="extension: typed entry points (from_slice/from_reader of SourceMap, SourceMapIndex, SourceMapHermes: own kind or IncompatibleSourceMap) and sections resolved after decoding (set_sourcemap / set_url / set_file, flatten before/after), specified as found in IndexExt.tla on top of IndexMap!FlattenIdx",
    level_note="beyond the listed properties; not registered in MANIFEST.json",
    technique="TLA+ as-found specification composed from Doc/IndexMap, trace validation",
    mc=[dict(module="MC_IndexMap", cfg="MC_IndexMap_quick.cfg", tiers=("quick", "thorough"), workers=4, gen=False)],
    trace="Trace_E04",
    selftest_include_free=True,
    drive=dict(quick=dict(n=600, size=3), thorough=dict(n=12000, size=5)),
    nontrivial=lambda e: True,
    corrupt=_corrupt_e04,
    rule="seeded regular / Hermes / index documents through the three typed entry points; seeded indexes with one URL-only section and a map plugged in afterwards",
    assumptions=COMMON_ASSUMPTIONS,
)

def _corrupt_e05(e):
    o = e["out"]
    if o.get("k") != "ok":
        return False
    for r in o["outs"]:
        if len(r) == 2 and all(isinstance(x, int) for x in r):      # a size hint: claim more than is left
            r[0] += 1000
            return True
        if len(r) == 1 and isinstance(r[0], int):
            r[0] += 1
            return True
        if r:
            r.pop()
            return True
    o["outs"].append([])
    return True

PROPS["E05"] = dict(
    level="exploration",
    level_text="extension: every indexed iterator of the API (tokens(), sources(), names(), source_contents() of a map; sections() of an index) is the cursor machine of TokenIter.tla over what the indexed getter reports: sessions of next / nth / size_hint followed by one consuming adaptor (collect, skip, step_by, last, count)",
    level_note="beyond the listed properties; not registered in MANIFEST.json",
    technique="TLA+ cursor machine (TokenIter.tla, model-checked in MC_TokenIter), trace validation of real iterator sessions",
    mc=[dict(module="MC_TokenIter", cfg="MC_TokenIter_quick.cfg", tiers=("quick", "thorough"), workers=4, gen=False)],
    trace="Trace_E05",
    selftest_include_free=True,
    drive=dict(quick=dict(n=500, size=3), thorough=dict(n=10000, size=6)),
    nontrivial=lambda e: e["out"].get("k") == "ok" and len(e["args"]["items"]) >= 2,
    corrupt=_corrupt_e05,
    rule="seeded random maps (three construction routes) and index documents (also flattened); one session per iterator kind; distinct = distinct (kind, items, steps); non-trivial = at least 2 items",
    assumptions=COMMON_ASSUMPTIONS,
)

PROPS["E06"] = dict(
    level="exploration",
    level_text="extension: builder-side renames and shortcuts (SourceMapBuilder::set_source, strip_prefixes, add_token) inside C13's interning machine, specified as found: the state keeps the strings sources were interned under (keys) apart from their current names (srcs); named deviation RenamedSourceStaysInternedUnderItsOldName",
    level_note="beyond the listed properties; not registered in MANIFEST.json",
    technique="TLA+ as-found extension of the Builder machine, stateful trace validation (Trace_C13)",
    mc=[dict(module="MC_Builder", cfg="MC_Builder_quick.cfg", tiers=("quick", "thorough"), workers=4, gen=False)],
    trace="Trace_C13",
    selftest_include_free=True,
    drive=dict(quick=dict(n=800, size=3), thorough=dict(n=16000, size=6)),
    nontrivial=lambda e: e["op"] not in ("set_file", "set_debug_id"),
    corrupt=PROPS["C13"]["corrupt"],
    rule="C13's seeded histories with b_set_source / b_strip_prefixes / add_token mixed in before into_sourcemap; distinct = distinct (call, state-relevant prefix); non-trivial = every call except set_file / set_debug_id",
    assumptions=COMMON_ASSUMPTIONS,
)

def _corrupt_e07(e):
    o = e["out"]
    if o.get("k") != "ok":
        return False
    o["ret"] += 1
    return True

PROPS["E07"] = dict(
    level="exploration",
    level_text="extension: SourceMapBuilder::load_local_source_contents against a model of the file system (LoadLocal.tla, as found): sources without contents whose interned name is local (no scheme) are candidates, the call returns the number of candidates, candidates whose file exists under the base directory ('.' / '..' resolved, '../' may leave it) receive the file's text",
    level_note="beyond the listed properties; not registered in MANIFEST.json; names over a closed ASCII alphabet so that URL joining is path arithmetic",
    technique="TLA+ as-found specification on top of the Builder machine, trace validation of real calls against real files in a scratch directory",
    mc=[dict(module="MC_Builder", cfg="MC_Builder_quick.cfg", tiers=("quick", "thorough"), workers=4, gen=False)],
    trace="Trace_E07",
    selftest_include_free=True,
    drive=dict(quick=dict(n=600, size=3), thorough=dict(n=12000, size=3)),
    nontrivial=lambda e: e["out"].get("k") == "ok" and len(e["args"]["calls"]) >= 2,
    corrupt=_corrupt_e07,
    rule="seeded builders over 16 source names (relative, dotted, climbing, rooted, with schemes, empty) with given contents here and there, against a scratch directory holding a random subset of 6 files; distinct = distinct (calls, fs); non-trivial = at least 2 calls",
    assumptions=COMMON_ASSUMPTIONS + ["the scratch directory under the system temp dir is writable; no file /no/such/root.js exists"],
)

def _corrupt_e09(e):
    o = e["out"]
    if o.get("k") != "ok":
        return False
    if o["url"]:
        o["url"][0] = o["url"][0] + [47]
    else:
        o["url"] = [[104]]
    return True

PROPS["E09"] = dict(
    level="exploration",
    level_text="extension: SourceMapRef::get_url / resolve / resolve_path (both enum variants) against the joining arithmetic of RefResolve.tla over a closed URL alphabet: data references and non-URL bases resolve to nothing, own scheme / '//' / '/' / empty path / relative path references, dot segments, query and fragment; the path form answers only for host-less results",
    level_note="beyond the listed properties; not registered in MANIFEST.json; the url crate's percent-encoding, default ports, drive letters and non-special schemes are outside the alphabet",
    technique="TLA+ as-found specification (RefResolve.tla), TLC checks seven theorems of the arithmetic on a bounded universe and enumerates it, trace validation of the real calls",
    mc=[dict(module="MC_RefResolve", cfg="MC_RefResolve_quick.cfg", tiers=("quick",), workers=8),
        dict(module="MC_RefResolve", cfg="MC_RefResolve_thorough.cfg", tiers=("thorough",), workers=12, timeout=1800)],
    trace="Trace_E09",
    selftest_include_free=True,
    drive=dict(quick=dict(n=4000, size=3), thorough=dict(n=80000, size=5)),
    nontrivial=lambda e: e["out"].get("k") == "ok" and bool(e["out"]["url"] or e["out"]["path"]),
    corrupt=_corrupt_e09,
    rule="every (base path, reference) of MC_RefResolve (components a, b, '.', '..', empty; five reference kinds; query / fragment tails; http, file and non-URL bases) and seeded random ones over 12 component names and 5 hosts; distinct = distinct (ref, base, path); non-trivial = at least one of the two answers exists",
    assumptions=COMMON_ASSUMPTIONS,
)

def _corrupt_e08(e):
    o = e["out"]
    if o.get("k") == "ok":
        o["count"] += 1
    else:
        o["is"] = not o["is"]
    return True

PROPS["E08"] = dict(
    level="exploration",
    level_text="extension: the FILE form of a RAM bundle (is_unbundle_path, RamBundle::parse_unbundle_from_path, module_count, startup_code, get_module, iter_modules) against a model of the directory (FileBundle.tla, as found): marker file with the magic, one <id>.js per module, count = highest id + 1",
    level_note="beyond the listed properties; not registered in MANIFEST.json",
    technique="TLA+ as-found specification, trace validation of real calls against real directories in a scratch location",
    mc=[dict(module="MC_RamBundle", cfg="MC_RamBundle_quick.cfg", tiers=("quick", "thorough"), workers=4, gen=False)],
    trace="Trace_E08",
    selftest_include_free=True,
    drive=dict(quick=dict(n=800, size=3), thorough=dict(n=16000, size=3)),
    nontrivial=lambda e: True,
    corrupt=_corrupt_e08,
    rule="seeded directories: marker file variants (missing, other byte order, short, off by one, longer), bundle file present or not, up to 5 module files drawn from well-formed names (leading zeros, '+') and malformed ones, an ignored sub-directory; distinct = distinct directory model",
    assumptions=COMMON_ASSUMPTIONS + ["the scratch directory under the system temp dir is writable"],
)
