CONSTANTS
  MaxSlots = 3
  Startups <- St_thorough
SPECIFICATION Spec
INVARIANTS WellFormedRoundTrip NeverOutside RecognitionIsHeaderAndMagic TruncatedHeaderRefused EmitCase
CHECK_DEADLOCK FALSE
