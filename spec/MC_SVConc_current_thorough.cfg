CONSTANTS
  Threads = {1,2,3}
  Algo = "single"
  Texts <- T_more
  CallPool <- Pool_small
  MaxCalls = 2
SPECIFICATION Spec
INVARIANTS Safe LockDiscipline Progress IndexOK HalfUpdatedOnlyUnderLock
VIEW View
CHECK_DEADLOCK FALSE
