CONSTANTS
  MaxToks = 3
  Lines = {0,1}
  Cols = {0,2}
  WithRange = TRUE
SPECIFICATION Spec
INVARIANTS FoldIsMachine RoundTrip RoundTripDecl Shape RangeAbsentIffNoRange EmitCase
CHECK_DEADLOCK FALSE
