---------------------------- MODULE MC_RelPath ----------------------------
EXTENDS RelPath, TLC, Json
CONSTANTS MaxLen, Names
Paths == UNION {[1..n -> Names] : n \in 1..MaxLen}
VARIABLES base, target, abs, sep, st
vars == <<base, target, abs, sep, st>>
Init == base \in Paths /\ target \in Paths /\ abs \in BOOLEAN /\ sep \in {0, 1} /\ st = AInit
Step == st.phase # "done" /\ st' = AStep(st, base, target) /\ UNCHANGED <<base, target, abs, sep>>
Next == Step
Spec == Init /\ [][Next]_vars
AlgorithmSatisfiesRelation == st.phase = "done" => RelOK(base, target, st.out)
PrefixInvariant == st.p <= Len(Dir(base)) /\ st.p <= Len(target)
                   /\ SubSeq(Dir(base), 1, st.p) = SubSeq(target, 1, st.p)
EmitCase == (st.phase = "done") =>
    PrintT("CASE " \o ToJson([op |-> "rel", base |-> base, target |-> target, abs |-> abs, sep |-> sep]))
=============================================================================
