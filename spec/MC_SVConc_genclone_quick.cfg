CONSTANTS
  Threads = {1,2}
  Algo = "single"
  Texts <- T_one
  CallPool <- Pool_clone_small
  MaxCalls = 2
SPECIFICATION Spec
INVARIANTS EmitCase
CHECK_DEADLOCK FALSE
