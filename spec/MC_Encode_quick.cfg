CONSTANTS
  MaxToks = 3
  Lines = {0,2}
  Cols = {0,3}
  WithRange = FALSE
SPECIFICATION Spec
INVARIANTS FoldIsMachine RoundTrip RoundTripDecl Shape RangeAbsentIffNoRange EmitCase
CHECK_DEADLOCK FALSE
