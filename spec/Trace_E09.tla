----------------------------- MODULE Trace_E09 -----------------------------
(* E09: one event per (reference, minified URL, minified path): both enum    *)
(* variants must answer alike, get_url is the reference itself, resolve and  *)
(* resolve_path are RefResolve!Resolve / ResolvePath.                        *)
EXTENDS RefResolve, Json, IOUtils, TLC
Rec == ndJsonDeserialize(IOEnv.TRACE)
VARIABLES l, bad, free
vars == <<l, bad, free>>
Judge(e) == /\ e.op = "resolve" /\ e.out.k = "ok"
            /\ e.out.get_url = e.args.ref /\ e.out.get_url_legacy = e.args.ref
            /\ e.out.url = Resolve(e.args.ref, e.args.base) /\ e.out.url_legacy = e.out.url
            /\ e.out.path = ResolvePath(e.args.ref, e.args.path) /\ e.out.path_legacy = e.out.path
Free(e) == FALSE
Init == l = 1 /\ bad = <<>> /\ free = <<>>
Next == /\ l <= Len(Rec)
        /\ l' = l + 1
        /\ bad' = IF Judge(Rec[l]) THEN bad ELSE Append(bad, Rec[l].i)
        /\ free' = IF Free(Rec[l]) THEN Append(free, Rec[l].i) ELSE free
Spec == Init /\ [][Next]_vars
Report == (l = Len(Rec) + 1) => PrintT("RESULT " \o ToJson([events |-> Len(Rec), bad |-> bad, free |-> free]))
=============================================================================
