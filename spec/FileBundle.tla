----------------------------- MODULE FileBundle -----------------------------
(***************************************************************************)
(* Extension E08: the FILE form of a RAM bundle ("unbundle", used on        *)
(* Android), specified as found.  On disk:                                  *)
(*     <dir>/<bundle file>            the startup code                      *)
(*     <dir>/js-modules/UNBUNDLE      a file beginning with the 4 magic     *)
(*                                    bytes (0xFB0BD1E5 little endian)      *)
(*     <dir>/js-modules/<id>.js       one file per module                   *)
(* Model of the directory:                                                  *)
(*   d = [bundle : <<>> | <<bytes>>,            the bundle file, if present *)
(*        marker : <<>> | <<bytes>>,            js-modules/UNBUNDLE         *)
(*        files : Seq([name, bytes]),           other regular files in js-modules *)
(*        subdirs : BOOLEAN]                    js-modules has a sub-directory (ignored) *)
(* File names are strings over digits, '+', '-', letters and '.'.           *)
(***************************************************************************)
EXTENDS Naturals, Integers, Sequences, SequencesExt, FiniteSets, TLC

MAGIC == <<229, 209, 11, 251>>
IsFileBundle(d) == /\ d.bundle # <<>>
                   /\ d.marker # <<>> /\ Len(d.marker[1]) >= 4 /\ SubSeq(d.marker[1], 1, 4) = MAGIC

\* a module file name: decimal digits (an optional leading '+' is accepted by the number parser, leading zeros too),
\* then ".js"; anything else makes parsing fail.  Names are code-point sequences.
Digits(s) == s # <<>> /\ \A i \in DOMAIN s : s[i] \in 48..57
JS == <<46, 106, 115>>
HasJsSuffix(n) == Len(n) >= 3 /\ SubSeq(n, Len(n) - 2, Len(n)) = JS
Stem(n) == SubSeq(n, 1, Len(n) - 3)
NumPart(st) == IF st # <<>> /\ st[1] = 43 THEN SubSeq(st, 2, Len(st)) ELSE st       \* 43 = '+'
ValidName(n) == HasJsSuffix(n) /\ Digits(NumPart(Stem(n))) /\ Len(NumPart(Stem(n))) <= 9   \* (ids kept below 10^9 in the model)
RECURSIVE ToNat(_)
ToNat(ds) == IF ds = <<>> THEN 0 ELSE 10 * ToNat(SubSeq(ds, 1, Len(ds) - 1)) + (ds[Len(ds)] - 48)
IdOf(n) == ToNat(NumPart(Stem(n)))

Ids(d) == {IdOf(d.files[i].name) : i \in DOMAIN d.files}
\* two files naming the same id ("3.js", "03.js", "+3.js"): which one is kept depends on directory order
Ambiguous(d, id) == Cardinality({i \in DOMAIN d.files : IdOf(d.files[i].name) = id}) > 1

ParseOK(d) == IsFileBundle(d) /\ \A i \in DOMAIN d.files : ValidName(d.files[i].name)
Count(d) == IF d.files = <<>> THEN 1 ELSE (CHOOSE m \in Ids(d) : \A x \in Ids(d) : x <= m) + 1      \* highest id + 1; 1 when there is no module
Startup(d) == d.bundle[1]
\* <<>> (no such module) or <<bytes>>
Module(d, id) == LET hits == {i \in DOMAIN d.files : IdOf(d.files[i].name) = id} IN
                 IF hits = {} THEN <<>> ELSE << d.files[CHOOSE i \in hits : TRUE].bytes >>
=============================================================================
