---------------------------- MODULE CommonPrefix ----------------------------
(***************************************************************************)
(* Extension E03 (beyond the listed properties): the "~" rewrite option.    *)
(* find_common_prefix: among the ABSOLUTE sources ('/' first, or a drive    *)
(* letter followed by ':/' or ':\'), split each at '/' and '\' keeping the   *)
(* separator in front of every component, take the longest common component *)
(* prefix, join it; nothing if it is empty or just "/".  rewrite with "~"   *)
(* then strips "<that>/" from every source that starts with it (after the   *)
(* explicitly listed prefixes).  Specified as found.                        *)
(***************************************************************************)
EXTENDS Rewrite

BSLASH == 92
IsLetter(c) == c \in (65..90) \cup (97..122)
IsAbsPath(s) == \/ (s # <<>> /\ s[1] = SLASH)
                \/ (Len(s) > 3 /\ IsLetter(s[1]) /\ s[2] = 58 /\ s[3] \in {SLASH, BSLASH})
\* components with their leading separator: "/foo/bar" -> <<"", "/foo", "/bar">>
SepIdx(s) == {i \in 1..Len(s) : s[i] \in {SLASH, BSLASH}}
SplitPath(s) ==
    LET ix == SetToSortSeq(SepIdx(s), <)
        n == Len(ix)
    IN IF n = 0 THEN (IF s = <<>> THEN <<>> ELSE <<s>>)
       ELSE << SubSeq(s, 1, ix[1] - 1) >>
            \o [k \in 1..n |-> SubSeq(s, ix[k], IF k < n THEN ix[k + 1] - 1 ELSE Len(s))]
\* NOTE (as found): the last slice is only pushed when it is non-empty, and so is the first
\* when the path does not start with a separator; both hold in the formula above because a
\* separator is never the empty string.
CommonLen(a, b) == LET m == IF Len(a) < Len(b) THEN Len(a) ELSE Len(b)
                       bad == {i \in 1..m : a[i] # b[i]} IN
                   IF bad = {} THEN m ELSE (CHOOSE i \in bad : \A j \in bad : i <= j) - 1
Flat(cs) == FoldLeft(LAMBDA acc, c : acc \o c, <<>>, cs)
\* <<>> (none) or <<prefix>>: what a reader expects -- the longest component prefix common to ALL absolute sources
FindCommonPrefix(sources) ==
    LET abs == SelectSeq(sources, IsAbsPath) IN
    IF abs = <<>> THEN <<>>
    ELSE LET paths == [i \in DOMAIN abs |-> SplitPath(abs[i])]
             shortest == CHOOSE i \in DOMAIN paths : \A j \in DOMAIN paths : Len(paths[i]) <= Len(paths[j])
             lens == {CommonLen(paths[shortest], paths[j]) : j \in DOMAIN paths}
             n == CHOOSE k \in lens : \A k2 \in lens : k <= k2
             pre == Flat(SubSeq(paths[shortest], 1, n))
         IN IF n = 0 \/ pre = <<>> \/ pre = <<SLASH>> THEN <<>> ELSE <<pre>>
\* AS FOUND.  The code sorts the split paths by length (stable), takes the first as the yardstick and
\* folds over all of them keeping "the smallest common length so far" in an Option whose None means
\* both "nothing seen yet" and "no common component":
\* DEVIATION CommonPrefixForgetsMismatch: after a path that shares NO component with the yardstick
\* (e.g. a drive-letter path among '/'-rooted ones) the running value is None and the next path simply
\* overwrites it, so the mismatch is forgotten and a prefix that is not common to all is returned.
FindCommonPrefixAsFound(sources) ==
    LET abs == SelectSeq(sources, IsAbsPath) IN
    IF abs = <<>> THEN <<>>
    ELSE LET paths == [i \in DOMAIN abs |-> SplitPath(abs[i])]
             order == SetToSortSeq(DOMAIN paths, LAMBDA i, j : Len(paths[i]) < Len(paths[j]) \/ (Len(paths[i]) = Len(paths[j]) /\ i < j))
             yard == paths[order[1]]
             n == FoldLeft(LAMBDA mx, k : LET c == CommonLen(yard, paths[order[k]]) IN IF mx = 0 \/ c < mx THEN c ELSE mx,
                           0, [k \in 1..Len(order) |-> k])
             pre == Flat(SubSeq(yard, 1, n))
         IN IF n = 0 \/ pre = <<>> \/ pre = <<SLASH>> THEN <<>> ELSE <<pre>>
CommonPrefixDeviates(sources) == FindCommonPrefixAsFound(sources) # FindCommonPrefix(sources)
\* rewrite with the "~" option: listed prefixes first, then the common prefix of the ORIGINAL (raw) sources
RewriteTildeSpec(p, rawsources, opts) ==
    LET cp == FindCommonPrefixAsFound(rawsources) IN
    RewriteSpec(p, [opts EXCEPT !.prefixes = opts.prefixes \o cp])
=============================================================================
