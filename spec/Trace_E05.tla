----------------------------- MODULE Trace_E05 -----------------------------
(* Extension E05: every indexed iterator of the API (tokens, sources, names, *)
(* source contents, sections of an index) is the cursor machine of           *)
(* TokenIter.tla over what the indexed getter reports (args.items).          *)
EXTENDS TokenIter, Json, IOUtils, TLC
Rec == ndJsonDeserialize(IOEnv.TRACE)
VARIABLES l, bad, free
vars == <<l, bad, free>>
Judge(e) == /\ e.op = "session"
            /\ e.out.k = "ok"
            /\ IterOK(e.args.items, e.args.steps, e.out.outs)
Free(e) == FALSE
Init == l = 1 /\ bad = <<>> /\ free = <<>>
Next == /\ l <= Len(Rec)
        /\ l' = l + 1
        /\ bad' = IF Judge(Rec[l]) THEN bad ELSE Append(bad, Rec[l].i)
        /\ free' = IF Free(Rec[l]) THEN Append(free, Rec[l].i) ELSE free
Spec == Init /\ [][Next]_vars
Report == (l = Len(Rec) + 1) => PrintT("RESULT " \o ToJson([events |-> Len(Rec), bad |-> bad, free |-> free]))
=============================================================================
