------------------------------ MODULE MC_SVConc ------------------------------
EXTENDS SourceViewConc
T_small == { <<>>, <<97>>, <<97, 10, 98>>, <<97, 10>> }
T_more == T_small \cup { <<13, 10>>, <<97, 13, 98, 10, 99>> }
Pool_small == { [op |-> "get_line", i |-> 0], [op |-> "get_line", i |-> 1], [op |-> "get_line", i |-> 2], [op |-> "line_count", i |-> 0] }
T_one == { <<97, 10, 98>> }
Pool_clone_small == { [op |-> "get_line", i |-> 1], [op |-> "line_count", i |-> 0], [op |-> "clone", i |-> 0] }
Pool_clone == Pool_small \cup { [op |-> "clone", i |-> 0] }
=============================================================================
