CONSTANTS
  Threads = {1,2}
  Algo = "split"
  Texts <- T_more
  CallPool <- Pool_small
  MaxCalls = 2
SPECIFICATION Spec
INVARIANTS EmitCase
CHECK_DEADLOCK FALSE
