----------------------------- MODULE Trace_C19 -----------------------------
EXTENDS RelPath, TLC, Json, IOUtils
Rec == ndJsonDeserialize(IOEnv.TRACE)
VARIABLES l, bad, free
vars == <<l, bad, free>>
Judge(e) == e.op = "rel" /\ e.out.k = "ok" /\ RelOK(e.args.base, e.args.target, e.out.comps)
Free(e) == FALSE
Init == l = 1 /\ bad = <<>> /\ free = <<>>
Next == /\ l <= Len(Rec)
        /\ l' = l + 1
        /\ bad' = IF Judge(Rec[l]) THEN bad ELSE Append(bad, Rec[l].i)
        /\ free' = IF Free(Rec[l]) THEN Append(free, Rec[l].i) ELSE free
Spec == Init /\ [][Next]_vars
Report == (l = Len(Rec) + 1) => PrintT("RESULT " \o ToJson([events |-> Len(Rec), bad |-> bad, free |-> free]))
=============================================================================
