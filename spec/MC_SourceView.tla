--------------------------- MODULE MC_SourceView ---------------------------
(* Every text of <= MaxText characters over {LF, CR, 'a', U+1F60D} x every  *)
(* request history of depth <= Depth: each answer equals the declarative    *)
(* one regardless of history (cloning the view in mid-session included);   *)
(* the index stays a prefix of the line list.                               *)
EXTENDS SourceView, TLC, Json
CONSTANTS MaxText, Depth, Slices
Alphabet == {LF, CR, 97, 128525, 11}      \* 11 = vertical tab: a control character that does NOT end a line
Ops == IF Slices
       THEN {[op |-> "slice", line |-> ln, c |-> c, n |-> n] : ln \in 0..2, c \in {0, 1, 2, 3, MAXU}, n \in {0, 1, 2, 3, MAXU}}
       ELSE {[op |-> "get_line", i |-> i] : i \in 0..(MaxText + 1)} \cup {[op |-> "line_count"], [op |-> "lines"], [op |-> "clone"]}
VARIABLES phase, text, st, hist, lastret
vars == <<phase, text, st, hist, lastret>>
Init == phase = "build" /\ text = <<>> /\ st = SvInit /\ hist = <<>> /\ lastret = <<>>
AddChar == /\ phase = "build" /\ Len(text) < MaxText
           /\ \E c \in Alphabet : text' = Append(text, c)
           /\ UNCHANGED <<phase, st, hist, lastret>>
Start == phase = "build" /\ phase' = "use" /\ UNCHANGED <<text, st, hist, lastret>>
Request == /\ phase = "use" /\ Len(hist) < Depth
           /\ \E o \in Ops : LET r == Apply(st, text, o) IN
                 /\ st' = r.st /\ lastret' = <<r.ret, Decl(text, o)>>
                 /\ hist' = Append(hist, o)
           /\ UNCHANGED <<phase, text>>
Next == AddChar \/ Start \/ Request
Spec == Init /\ [][Next]_vars

AnswerIsDeclarative == lastret # <<>> => lastret[1] = lastret[2]
IndexIsConsistent == IndexConsistent(st, text)
LinesRejoin == \* the pieces, put back together with their terminators removed, have the text's non-terminator characters
    LET ls == Lines(text) IN
    FoldLeft(LAMBDA acc, x : acc \o x, <<>>, ls) = SelectSeq(text, LAMBDA c : c # CR /\ c # LF)
\* the repeated-pattern lemma used for large texts, on small instances
RepLemma == \A n \in 0..3 : \A sep \in {<<LF>>, <<CR>>, <<CR, LF>>} : \A unit \in {<<>>, <<97>>, <<97, 128525>>} :
    LET t == RepText(unit, sep, n) IN
    /\ Len(Lines(t)) = RepCount(n)
    /\ \A i \in 0..(n + 1) : DeclLine(t, i) = RepLine(unit, n, i)
SmallSegs == UNION {[1..n -> {<<97, ln, sp>> : ln \in 0..2, sp \in 0..2}] : n \in 0..2}
SegLemma == \A segs \in SmallSegs : SegsOK(segs) =>
    /\ Len(Lines(SegText(segs))) = Len(segs) + 1
    /\ \A i \in 0..(Len(segs) + 1) : DeclLine(SegText(segs), i) = SegLine(segs, i)
\* ... and the side condition is needed: without it the lemma fails somewhere
SegSideConditionNeeded == \E segs \in SmallSegs : ~SegsOK(segs) /\ Len(Lines(SegText(segs))) # Len(segs) + 1
\* the lemmas are constant-level: TLC evaluates them once, before the state space
ASSUME RepLemma
ASSUME SegLemma
ASSUME SegSideConditionNeeded
SegSliceLemma == \A ch \in {97, 128525} : \A len \in 0..4 : \A c \in (0..9) \cup {MAXU} : \A n \in (0..9) \cup {MAXU} :
    SliceChars(DeclSlice(SegUnit(<<ch, len, 0>>), c, n)) = SegSlice(ch, len, c, n)
ASSUME SegSliceLemma
EmitCase == (phase = "use" /\ Len(hist) = Depth) =>
    PrintT("CASE " \o ToJson([op |-> "view", text |-> text, calls |-> hist]))
=============================================================================
