---------------------------- MODULE MC_Lifecycle ----------------------------
(* TLC enumerates every document kind x every set of <= MaxFaults faults and *)
(* every life-cycle history of <= Depth steps the machine allows; invariants *)
(* are the protocol facts the trace specification relies on.                 *)
EXTENDS Lifecycle, Json
CONSTANTS MaxFaults, Depth
VARIABLES kind, faults, st, n, phase
vars == <<kind, faults, st, n, phase>>
Init == kind \in Kinds /\ faults = <<>> /\ st = LInit /\ n = 0 /\ phase = "faults"
AddFault == /\ phase = "faults" /\ Len(faults) < MaxFaults
            /\ \E ft \in Faults : /\ (ft.key \in AllKeys => HasKey(kind, ft.key))
                                  /\ (ft.key \in {"offset.line", "offset.column"} => kind = "index")
                                  /\ (ft.f = "nest" => kind = "index")
                                  /\ (ft.f = "hermes" => kind = "hermes")
                                  /\ (ft.f = "vlq" => kind # "index")
                                  /\ (\A i \in DOMAIN faults : faults[i] # ft)
                                  /\ faults' = Append(faults, ft)
            /\ UNCHANGED <<kind, st, n, phase>>
Run == phase = "faults" /\ phase' = "run" /\ UNCHANGED <<kind, faults, st, n>>
Steps == {[op |-> "decode", out |-> o, kind |-> k] : o \in {"err", "map"}, k \in Kinds}
    \cup {[op |-> o, out |-> r, kind |-> k] : o \in {"query", "serialize", "redecode", "rewrite", "flatten", "detect"},
                                              r \in {"ok", "err", "map", "skipped"}, k \in Kinds}
Do == /\ phase = "run" /\ n < Depth
      /\ \E s \in Steps : LET st2 == LStep(st, s, Predict(kind, faults)) IN
             st2.phase # "REJECT" /\ st' = st2
      /\ n' = n + 1 /\ UNCHANGED <<kind, faults, phase>>
Next == AddFault \/ Run \/ Do
Spec == Init /\ [][Next]_vars
RedecodeOnlyAfterSerialize == (st.phase = "map" /\ ~st.bytes) =>
    LStep(st, [op |-> "redecode", out |-> "map", kind |-> st.kind], "any").phase = "REJECT"
FailedIsFinal == st.phase = "failed" =>
    \A s \in Steps : s.op \notin {"detect"} => LStep(st, s, "any").phase \in {"REJECT", "failed"}
PredictionRespected == (phase = "run" /\ st.phase = "map" /\ n = 1) => Predict(kind, faults) # "err"
View == <<kind, faults, st.phase, st.bytes, phase>>
EmitCase == (phase = "run" /\ n = 0) => PrintT("CASE " \o ToJson([op |-> "faultdoc", kind |-> kind, faults |-> faults, predict |-> Predict(kind, faults)]))
=============================================================================
