----------------------------- MODULE SourceView -----------------------------
(***************************************************************************)
(* SourceView (C15, and the sequential oracle of C16).  A text is a         *)
(* sequence of code points.  Lines(text) is the declarative split at CR LF, *)
(* LF or lone CR.  The lazy line index is a state machine [proc, cache]:    *)
(* proc = number of characters already indexed (Len+1 = finished), cache =  *)
(* the lines found so far.  Every request must return what the declarative  *)
(* reading gives, whatever the history.                                     *)
(***************************************************************************)
EXTENDS Naturals, Integers, Sequences, SequencesExt, FiniteSets

LF == 10
CR == 13
MAXU == 2147483647                 \* stand-in for u32::MAX in logged requests
U16(c) == IF c >= 65536 THEN 2 ELSE 1

(* ----------------------------- declarative ----------------------------- *)
\* a terminator starts at i: a CR, or an LF that does not complete a CR LF pair
TermStarts(t) == {i \in 1..Len(t) : t[i] = CR \/ (t[i] = LF /\ (IF i = 1 THEN TRUE ELSE t[i - 1] # CR))}
TermEnd(t, i) == IF t[i] = CR /\ i + 1 <= Len(t) /\ t[i + 1] = LF THEN i + 1 ELSE i
Lines(t) ==
    LET ts == SetToSortSeq(TermStarts(t), <)
        n == Len(ts) + 1
        from(k) == IF k = 1 THEN 1 ELSE TermEnd(t, ts[k - 1]) + 1
        to(k) == IF k = n THEN Len(t) ELSE ts[k] - 1
    IN [k \in 1..n |-> SubSeq(t, from(k), to(k))]
\* optional results are <<>> / <<v>>
DeclLine(t, i) == IF i < Len(Lines(t)) THEN <<Lines(t)[i + 1]>> ELSE <<>>
DeclCount(t) == Len(Lines(t))

\* characters covering UTF-16 code units c .. c+n of the line (whole characters); nothing if the
\* line has fewer than c+n units.  In true integers: MAXU + anything is simply "too long".
Units(line) == FoldLeft(LAMBDA acc, ch : acc + U16(ch), 0, line)
UnitStart(line, k) == FoldLeft(LAMBDA acc, j : acc + U16(line[j]), 0, [j \in 1..(k - 1) |-> j])
DeclSlice(line, c, n) ==
    IF c = MAXU \/ n = MAXU \/ c + n > Units(line) THEN <<>>
    ELSE << SelectSeq([k \in 1..Len(line) |-> [ch |-> line[k], s |-> UnitStart(line, k)]],
                      LAMBDA x : n > 0 /\ x.s < c + n /\ x.s + U16(x.ch) > c) >>   \* an empty span covers nothing
SliceChars(r) == IF r = <<>> THEN <<>> ELSE << [k \in 1..Len(r[1]) |-> r[1][k].ch] >>

(* --------------------------- lazy index machine ------------------------ *)
SvInit == [proc |-> 0, cache |-> <<>>]
Finished(s, t) == s.proc > Len(t)
\* one iteration of the indexing loop
IndexStep(s, t) ==
    LET rest == {j \in (s.proc + 1)..Len(t) : t[j] = CR \/ t[j] = LF} IN
    IF rest = {} THEN [proc |-> Len(t) + 1, cache |-> Append(s.cache, SubSeq(t, s.proc + 1, Len(t)))]
    ELSE LET j == CHOOSE x \in rest : \A y \in rest : x <= y IN
         [proc |-> TermEnd(t, j), cache |-> Append(s.cache, SubSeq(t, s.proc + 1, j - 1))]
RECURSIVE IndexUntil(_, _, _)
IndexUntil(s, t, i) == IF i < Len(s.cache) \/ Finished(s, t) THEN s ELSE IndexUntil(IndexStep(s, t), t, i)

\* operations: [st |-> new state, ret |-> result]
GetLineM(s, t, i) ==
    LET s2 == IndexUntil(s, t, i) IN
    [st |-> s2, ret |-> IF i < Len(s2.cache) THEN <<s2.cache[i + 1]>> ELSE <<>>]
CountM(s, t) == LET s2 == IndexUntil(s, t, MAXU) IN [st |-> s2, ret |-> Len(s2.cache)]
\* the line iterator asks for 0, 1, 2, ... until nothing comes back
IterM(s, t) == LET s2 == IndexUntil(s, t, MAXU) IN [st |-> s2, ret |-> s2.cache]
SliceM(s, t, line, c, n) ==
    LET g == GetLineM(s, t, line) IN
    [st |-> g.st, ret |-> IF g.ret = <<>> THEN <<>> ELSE SliceChars(DeclSlice(g.ret[1], c, n))]

\* dispatch on a logged operation record [op, ...]
Apply(s, t, o) ==
    CASE o.op = "get_line" -> GetLineM(s, t, o.i)
      [] o.op = "line_count" -> CountM(s, t)
      [] o.op = "lines" -> IterM(s, t)
      [] o.op = "slice" -> SliceM(s, t, o.line, o.c, o.n)
      [] o.op = "clone" -> [st |-> SvInit, ret |-> 0]     \* Clone: same text, a FRESH index (as the code does); the session goes on with the clone
\* the declarative answer to the same operation (history independent)
Decl(t, o) ==
    CASE o.op = "get_line" -> DeclLine(t, o.i)
      [] o.op = "line_count" -> DeclCount(t)
      [] o.op = "lines" -> Lines(t)
      [] o.op = "slice" -> IF DeclLine(t, o.line) = <<>> THEN <<>>
                           ELSE SliceChars(DeclSlice(DeclLine(t, o.line)[1], o.c, o.n))
      [] o.op = "clone" -> 0
\* ---- large texts given as a repeated pattern ----
\* text = (unit ++ sep) repeated n times, unit without terminators, sep one terminator (LF, CR or CR LF).
\* LEMMA (checked by TLC for small n in MC_SourceView): it has n+1 lines, the first n equal to unit, the last empty.
RepText(unit, sep, n) == FoldLeft(LAMBDA acc, k : acc \o unit \o sep, <<>>, [k \in 1..n |-> k])
RepLine(unit, n, i) == IF i < n THEN <<unit>> ELSE IF i = n THEN << <<>> >> ELSE <<>>
RepCount(n) == n + 1
RepDecl(unit, n, o) ==
    CASE o.op = "get_line" -> RepLine(unit, n, o.i)
      [] o.op = "line_count" -> RepCount(n)
      [] o.op = "slice" -> IF RepLine(unit, n, o.line) = <<>> THEN <<>>
                           ELSE SliceChars(DeclSlice(RepLine(unit, n, o.line)[1], o.c, o.n))
      [] o.op = "clone" -> 0
\* ---- long lines given as segments ----
\* text = for each segment [ch, len, sep]: len copies of the (non-terminator) character ch, then the terminator
\* sep (0 = LF, 1 = CR, 2 = CR LF).  Side condition SegsOK: a CR terminator is not followed by an EMPTY segment
\* ending in LF / CR LF (the two would read as one CR LF).
\* LEMMA (checked by TLC for small instances in MC_SourceView): line k is len_k copies of ch_k, plus a final empty line.
SepText(c) == IF c = 0 THEN <<LF>> ELSE IF c = 1 THEN <<CR>> ELSE <<CR, LF>>
SegUnit(g) == [k \in 1..g[2] |-> g[1]]
SegText(segs) == FoldLeft(LAMBDA acc, g : acc \o SegUnit(g) \o SepText(g[3]), <<>>, segs)
SegsOK(segs) == /\ \A k \in DOMAIN segs : segs[k][1] \notin {LF, CR} /\ segs[k][3] \in 0..2
                /\ \A k \in 1..(Len(segs) - 1) : ~(segs[k][3] = 1 /\ segs[k + 1][2] = 0 /\ segs[k + 1][3] \in {0, 2})
\* closed form of a slice of a line of len copies of ch (u = UTF-16 units per character); LEMMA SegSliceLemma
SegSlice(ch, len, c, n) ==
    LET u == U16(ch) IN
    IF c = MAXU \/ n = MAXU \/ c + n > len * u THEN <<>>
    ELSE IF n = 0 THEN << <<>> >>
    ELSE << [k \in 1..(((c + n - 1) \div u) - (c \div u) + 1) |-> ch] >>
SegLine(segs, i) == IF i < Len(segs) THEN << SegUnit(segs[i + 1]) >> ELSE IF i = Len(segs) THEN << <<>> >> ELSE <<>>
SegDecl(segs, o) ==
    CASE o.op = "get_line" -> SegLine(segs, o.i)
      [] o.op = "line_count" -> Len(segs) + 1
      [] o.op = "slice" -> IF o.line > Len(segs) THEN <<>>
                           ELSE IF o.line = Len(segs) THEN SliceChars(DeclSlice(<<>>, o.c, o.n))
                           ELSE SegSlice(segs[o.line + 1][1], segs[o.line + 1][2], o.c, o.n)
      [] o.op = "clone" -> 0
\* consistency of the index with the text
IndexConsistent(s, t) ==
    /\ IsPrefix(s.cache, Lines(t))
    /\ (Finished(s, t) <=> Len(s.cache) = Len(Lines(t)))
=============================================================================
