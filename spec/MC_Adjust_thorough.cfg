CONSTANTS
  MaxO = 3
  MaxA = 3
  Lines = {0,1}
  Cols = {0,2,5}
  Dups = FALSE
SPECIFICATION Spec
INVARIANTS SweepIsDeclarative EmitCase
CHECK_DEADLOCK FALSE
