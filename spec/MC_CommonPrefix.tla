--------------------------- MODULE MC_CommonPrefix ---------------------------
EXTENDS CommonPrefix, Json
CONSTANTS MaxSrc
S(str) == str
P1 == <<47, 97, 47, 98, 47, 99>>          \* /a/b/c
P2 == <<47, 97, 47, 98, 47, 100>>         \* /a/b/d
P3 == <<47, 97, 47, 120>>                 \* /a/x
P4 == <<47, 97>>                          \* /a
P5 == <<114, 47, 121>>                    \* r/y   (relative)
P6 == <<67, 58, 47, 97, 47, 98>>          \* C:/a/b
P7 == <<47>>                              \* /
P8 == <<47, 97, 47, 98>>                  \* /a/b
P9 == <<47, 97, 98, 47, 99>>              \* /ab/c  (shares characters, not components, with /a/b)
Pool == {P1, P2, P3, P4, P5, P6, P7, P8, P9}
VARIABLES phase, srcs
vars == <<phase, srcs>>
Init == phase = "build" /\ srcs = <<>>
Add == phase = "build" /\ Len(srcs) < MaxSrc /\ (\E s \in Pool : srcs' = Append(srcs, s)) /\ UNCHANGED phase
Stop == phase = "build" /\ Len(srcs) >= 1 /\ phase' = "done" /\ UNCHANGED srcs
Next == Add \/ Stop
Spec == Init /\ [][Next]_vars
Abs == SelectSeq(srcs, IsAbsPath)
\* the result is a prefix of every absolute source, ends on a component boundary, and is maximal
IsPrefixOfAll == (phase = "done" /\ FindCommonPrefix(srcs) # <<>>) =>
    \A i \in DOMAIN Abs : HasPrefix(Abs[i], FindCommonPrefix(srcs)[1])
OnComponentBoundary == (phase = "done" /\ FindCommonPrefix(srcs) # <<>>) =>
    \A i \in DOMAIN Abs : LET pre == FindCommonPrefix(srcs)[1] IN
        Len(Abs[i]) = Len(pre) \/ Abs[i][Len(pre) + 1] \in {SLASH, BSLASH}
SplitRejoins == phase = "done" => \A i \in DOMAIN srcs : Flat(SplitPath(srcs[i])) = srcs[i]
\* the as-found result equals the expected one whenever every absolute path shares at least one
\* component with the yardstick (the deviation needs a total mismatch followed by another path)
DeviationNeedsTotalMismatch == (phase = "done" /\ CommonPrefixDeviates(srcs)) =>
    \E i, j \in DOMAIN Abs : CommonLen(SplitPath(Abs[i]), SplitPath(Abs[j])) = 0
EmitCase == phase = "done" => PrintT("CASE " \o ToJson([op |-> "tilde", sources |-> srcs]))
=============================================================================
