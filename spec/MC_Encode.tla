----------------------------- MODULE MC_Encode -----------------------------
(* Bounded exhaustive model of the mappings ENCODER and of the write/read   *)
(* cycle (C01, C03, C07).  TLC assembles every ordered token list over a    *)
(* small grid (duplicates, shared positions, empty lines, tokens without    *)
(* source, with/without name, range flags), runs the encoder machine one    *)
(* token per step and checks at the end that the independent decoder reads  *)
(* the text back as exactly the list minus exact consecutive duplicates,    *)
(* range flags included.                                                    *)
EXTENDS Mappings, Json

CONSTANTS MaxToks, Lines, Cols, WithRange

NSrc == 2
NNm == 2
Payloads == { <<-1, 0, 0, -1>>, <<0, 0, 0, -1>>, <<1, 1, 2, 0>>, <<0, 2, 1, 1>>, <<1, 0, 0, -1>> }
Flags == IF WithRange THEN {0, 1} ELSE {0}
Toks == {Tok(l, c, p[1], p[2], p[3], p[4], f) : l \in Lines, c \in Cols, p \in Payloads, f \in Flags}

VARIABLES phase, ts, k, enc
vars == <<phase, ts, k, enc>>

Init == phase = "build" /\ ts = <<>> /\ k = 0 /\ enc = EInit
\* tokens are added in non-decreasing generated position (a map keeps its tokens ordered)
AddToken == /\ phase = "build" /\ Len(ts) < MaxToks
            /\ \E t \in Toks : /\ (IF ts = <<>> THEN TRUE ELSE PosLe(Pos(ts[Len(ts)]), Pos(t)))
                               /\ ts' = Append(ts, t)
            /\ UNCHANGED <<phase, k, enc>>
Start == phase = "build" /\ phase' = "run" /\ UNCHANGED <<ts, k, enc>>
\* the encoder machine: one token per step
Emit == /\ phase = "run" /\ k < Len(ts)
        /\ k' = k + 1
        /\ enc' = EStep(enc, ts[k + 1])
        /\ UNCHANGED <<phase, ts>>
Next == AddToken \/ Start \/ Emit
Spec == Init /\ [][Next]_vars

Done == phase = "run" /\ k = Len(ts)
RText == RangeText(ts)
ReadBack == DecodeR(enc.out, NSrc, NNm, IF RText = <<>> THEN <<>> ELSE RangeLines(RText[1]))

FoldIsMachine == Done => enc.out = Encode(ts)
RoundTrip == Done => ReadBack.k = "ok" /\ ToksEq(ReadBack.toks, DedupSeq(ts))
\* the declarative decoder reads the same thing (ignoring range flags, which it does not model)
RoundTripDecl == Done => LET d == DecodeD(enc.out, NSrc, NNm) IN
                         d.k = "ok" /\ Len(d.toks) = Len(DedupSeq(ts))
                         /\ \A i \in DOMAIN d.toks : Pos(d.toks[i]) = Pos(DedupSeq(ts)[i]) /\ Src(d.toks[i]) = Src(DedupSeq(ts)[i])
\* one ';' per generated line up to the last token's line; never a trailing separator
Shape == Done => /\ Cardinality({i \in DOMAIN enc.out : enc.out[i] = SEMI}) = MaxLine(ts)
                 /\ (enc.out # <<>> => enc.out[Len(enc.out)] < 64)
RangeAbsentIffNoRange == Done => (RText = <<>>) = ~HasRange(ts)

EmitCase == Done => PrintT("CASE " \o ToJson([op |-> "map", toks |-> ts, nsrc |-> NSrc, nnm |-> NNm]))
=============================================================================
