CONSTANTS
  MaxLen = 3
  Names = {1, 2, 3}
SPECIFICATION Spec
INVARIANTS AlgorithmSatisfiesRelation PrefixInvariant EmitCase
CHECK_DEADLOCK FALSE
