---------------------------- MODULE Trace_C11 -----------------------------
(* Trace validation for C11: every recorded call of the real crate's       *)
(* parse_vlq_segment / generate_vlq_segment must be a step Vlq.tla allows. *)
EXTENDS Vlq, TLC, Json, IOUtils

Rec == ndJsonDeserialize(IOEnv.TRACE)

VARIABLES l, bad, free
vars == <<l, bad, free>>

AllInDomain(vs) == \A i \in DOMAIN vs : InDomain(vs[i])

JudgeDec(e) ==
    LET r == Dec(e.args.ds) IN
    IF r.k = "err" THEN e.out.k = "err"
    ELSE IF AllInDomain(r.vals) THEN e.out.k = "ok" /\ e.out.vals = r.vals
    ELSE \* values beyond 62 bits (still within 13 digits): an implementation with 64-bit integers may refuse them,
         \* but what it does return must be the standard's values -- never a value with bits dropped
         e.out.k = "err" \/ (e.out.k = "ok" /\ e.out.vals = r.vals)

JudgeEnc(e) ==
    IF AllInDomain(e.args.vals) THEN e.out.k = "ok" /\ e.out.ds = EncList(e.args.vals)
    ELSE e.out.k \in {"ok", "err"}

Judge(e) == CASE e.op = "dec" -> JudgeDec(e)
              [] e.op = "enc" -> JudgeEnc(e)
              [] OTHER -> FALSE

Free(e) == CASE e.op = "dec" -> (Dec(e.args.ds).k = "ok" /\ ~AllInDomain(Dec(e.args.ds).vals))
             [] e.op = "enc" -> ~AllInDomain(e.args.vals)
             [] OTHER -> FALSE

Init == l = 1 /\ bad = <<>> /\ free = <<>>
Next == /\ l <= Len(Rec)
        /\ l' = l + 1
        /\ bad' = IF Judge(Rec[l]) THEN bad ELSE Append(bad, Rec[l].i)
        /\ free' = IF Free(Rec[l]) THEN Append(free, Rec[l].i) ELSE free
Spec == Init /\ [][Next]_vars

Report == (l = Len(Rec) + 1) => PrintT("RESULT " \o ToJson([events |-> Len(Rec), bad |-> bad, free |-> free]))
=============================================================================
