CONSTANTS
  MaxToks = 4
  Lines = {0, 2}
  Cols = {0, 2, 3}
SPECIFICATION Spec
INVARIANTS DeviationCharacterised ExactSeekIsAsExpectedWithoutTies EmitCase
CHECK_DEADLOCK FALSE
