----------------------------- MODULE Trace_E02 -----------------------------
(* Extension E02: split_ram_bundle against SplitBundle.tla (as found).      *)
EXTENDS SplitBundle, Json, IOUtils
Rec == ndJsonDeserialize(IOEnv.TRACE)
VARIABLES l, bad, free
vars == <<l, bad, free>>
\* resolved token view: positions + source/name ids of the FLATTENED map are logged; the split map interns
\* again, so compare positions and original positions only
SameShape(a, b) == Len(a) = Len(b) /\ \A i \in DOMAIN a :
    Dl(a[i]) = Dl(b[i]) /\ Dc(a[i]) = Dc(b[i]) /\ Sl(a[i]) = Sl(b[i]) /\ Sc(a[i]) = Sc(b[i]) /\ Rg(b[i]) = 0
Judge(e) == /\ e.op = "split" /\ e.out.k = "ok"
            /\ Len(e.out.mods) = Len(e.args.mods)
            /\ \A j \in DOMAIN e.args.mods :
                 LET m == e.args.mods[j]  s == SplitModule(e.args.flat, m.start, m.text) IN
                 IF s.ok THEN e.out.mods[j].k = "ok" /\ SameShape(s.toks, e.out.mods[j].toks)
                 ELSE e.out.mods[j].k = "err"
Free(e) == e.op = "split" /\ \E j \in DOMAIN e.args.mods : SplitDeviates(e.args.flat, e.args.mods[j].start, e.args.mods[j].text)
Init == l = 1 /\ bad = <<>> /\ free = <<>>
Next == /\ l <= Len(Rec)
        /\ l' = l + 1
        /\ bad' = IF Judge(Rec[l]) THEN bad ELSE Append(bad, Rec[l].i)
        /\ free' = IF Free(Rec[l]) THEN Append(free, Rec[l].i) ELSE free
Spec == Init /\ [][Next]_vars
Report == (l = Len(Rec) + 1) => PrintT("RESULT " \o ToJson([events |-> Len(Rec), bad |-> bad, free |-> free]))
=============================================================================
