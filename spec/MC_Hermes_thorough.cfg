CONSTANTS
  MaxSegs = 4
SPECIFICATION Spec
INVARIANTS FoldIsMachine UnparsableDisables EntryPerSegment EmitCase
CHECK_DEADLOCK FALSE
