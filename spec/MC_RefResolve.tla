---------------------------- MODULE MC_RefResolve ----------------------------
(* Bounded universe for E09: every base path and every reference built from  *)
(* a small component alphabet; theorems of the joining arithmetic; each case  *)
(* is printed for replay against SourceMapRef::resolve / resolve_path.        *)
EXTENDS RefResolve, TLC, Json
CONSTANTS MaxBase, MaxRef
A == <<97>>   B == <<98>>   D1 == <<DOT>>   D2 == <<DOT, DOT>>   E == <<>>
BaseNames == {A, B, D2, E}
RefNames == {A, D1, D2, E}
SeqsUpTo(S, lo, hi) == UNION {[1..n -> S] : n \in lo..hi}
RECURSIVE JoinSlash(_)
JoinSlash(cs) == IF cs = <<>> THEN <<>> ELSE IF Len(cs) = 1 THEN cs[1] ELSE cs[1] \o <<SLASH>> \o JoinSlash(Tail(cs))
Hosts == {<<104>>}
Schemes == {"http", "file", "none"}
Kinds == {"rel", "rooted", "proto", "abs", "data"}
Tails == {"", "q", "f", "qf"}
VARIABLES scheme, bcomps, kind, rcomps, tl, done
vars == <<scheme, bcomps, kind, rcomps, tl, done>>
PathOf(cs) == PathText(cs)
BaseText == IF scheme = "http" THEN <<104, 116, 116, 112, COLON, SLASH, SLASH, 104>> \o PathOf(bcomps)
            ELSE IF scheme = "file" THEN FILE \o <<COLON, SLASH, SLASH>> \o PathOf(bcomps)
            ELSE Tail(PathOf(bcomps))                      \* not a URL at all
TailText == (IF tl \in {"q", "qf"} THEN <<QM, 107, 61, 49>> ELSE <<>>) \o (IF tl \in {"f", "qf"} THEN <<HASH, 102>> ELSE <<>>)
RefText == (CASE kind = "rel" -> JoinSlash(rcomps)
              [] kind = "rooted" -> <<SLASH>> \o JoinSlash(rcomps)
              [] kind = "proto" -> <<SLASH, SLASH, 111>> \o PathOf(rcomps)
              [] kind = "abs" -> <<104, 116, 116, 112, 115, COLON, SLASH, SLASH, 111>> \o PathOf(rcomps)
              [] kind = "data" -> DATA \o JoinSlash(rcomps)) \o TailText
\* inputs are assembled in two steps so that the workers share the enumeration (initial states are computed by one)
Init == scheme = "none" /\ bcomps = <<A>> /\ kind = "rel" /\ rcomps = <<>> /\ tl = "" /\ done = 0
PickBase == done = 0 /\ done' = 1 /\ scheme' \in Schemes /\ bcomps' \in SeqsUpTo(BaseNames, 1, MaxBase) /\ UNCHANGED <<kind, rcomps, tl>>
PickRef == done = 1 /\ done' = 2 /\ kind' \in Kinds /\ rcomps' \in SeqsUpTo(RefNames, 0, MaxRef) /\ tl' \in Tails /\ UNCHANGED <<scheme, bcomps>>
Next == PickBase \/ PickRef
Spec == Init /\ [][Next]_vars

R == Resolve(RefText, BaseText)
U == JoinUrl(ParseAbs(BaseText), RefText)
Defined == R # <<>>
\* "//" followed by an empty host (written here as a rooted reference whose first two components are empty)
EmptyHost == kind = "rooted" /\ Len(rcomps) >= 2 /\ rcomps[1] = E /\ rcomps[2] = E /\ scheme # "file"
NothingForDataOrRelativeBase == (kind = "data" \/ scheme = "none" \/ EmptyHost) <=> ~Defined
NoDotSegments == Defined => \A i \in DOMAIN U.comps : U.comps[i] # D1 /\ U.comps[i] # D2
NeverEmptyPath == Defined => U.comps # <<>>
AbsoluteIgnoresBase == (Defined /\ kind = "abs") => R = Resolve(RefText, <<120, COLON, SLASH, SLASH, 121, SLASH, 122>>)
\* resolving the empty reference against the answer gives the answer without its fragment
Idempotent == Defined => Resolve(<<>>, R[1]) = << UrlText([U EXCEPT !.frag = <<>>]) >>
\* text -> URL -> text is the identity on answers
ReparseStable == Defined => UrlText(ParseAbs(R[1])) = R[1]
\* the path form agrees with the URL form on file URLs without a host
\* (for paths free of '.', '..' and empty components: the path route keeps '..' components of the minified path)
PlainBase == \A i \in DOMAIN bcomps : bcomps[i] \in {A, B} \/ (i = Len(bcomps) /\ i = 1 /\ bcomps[i] = E)
PathAgrees == (scheme = "file" /\ PlainBase) =>
    LET p == ResolvePath(RefText, PathOf(bcomps)) IN
    IF kind = "data" \/ U.host # <<>> THEN p = <<>> ELSE p = << PathText(U.comps) >>
\* file URLs with empty interior components are parsed by special rules of the url crate: outside the alphabet
InAlphabet == ~(scheme = "file" /\ ((\E i \in 1..(Len(bcomps) - 1) : bcomps[i] = E)
                                    \/ (kind \in {"rel", "rooted", "proto"} /\ \E i \in 1..(Len(rcomps) - 1) : rcomps[i] = E)))
EmitCase == (done = 2 /\ InAlphabet) => PrintT("CASE " \o ToJson([op |-> "resolve", ref |-> RefText, base |-> BaseText,
                                               path |-> IF scheme = "none" THEN Tail(PathOf(bcomps)) ELSE PathOf(bcomps)]))
=============================================================================
