------------------------------- MODULE Adjust -------------------------------
(***************************************************************************)
(* SourceMap::adjust_mappings (C10): composing a map with an adjustment map *)
(* interval by interval.                                                    *)
(* Declarative: every DISTINCT start position owns one stretch, from that   *)
(* position to the next distinct start or the end of the line; the result   *)
(* has exactly one token per pair (original stretch, adjustment stretch)    *)
(* with a non-empty overlap, at the start of the overlap moved by the       *)
(* adjustment token's generated-minus-original displacement, carrying an    *)
(* original token of that start position.                                   *)
(* Algorithmic: the two-pointer sweep over the sorted range lists, one      *)
(* action per step (MC_Adjust checks it against the declarative form).      *)
(***************************************************************************)
EXTENDS Mappings

INF == 1073741823      \* greater than every logged column (numbers >= 2^30 are never logged)
OKey(t) == <<Dl(t), Dc(t)>>            \* an original token lives at its generated position
AKey(t) == <<Sl(t), Sc(t)>>            \* an adjustment token is looked up by its ORIGINAL position
Disp(a) == <<Dl(a) - Sl(a), Dc(a) - Sc(a)>>
MaxPos(p, q) == IF PosLe(p, q) THEN q ELSE p
MinPos(p, q) == IF PosLe(p, q) THEN p ELSE q
LineEnd(p) == <<p[1], INF>>

Starts(ts, Key(_)) == {Key(ts[i]) : i \in DOMAIN ts}
\* end of the stretch that starts at p: the next distinct start or the end of p's line
StretchEnd(S, p) == LET later == {q \in S : PosLt(p, q)} IN
                    IF later = {} THEN LineEnd(p)
                    ELSE MinPos(CHOOSE q \in later : \A r \in later : PosLe(q, r), LineEnd(p))
Overlap(So, p, Sa, q) == PosLt(MaxPos(p, q), MinPos(StretchEnd(So, p), StretchEnd(Sa, q)))
Pairs(orig, adj) == LET So == Starts(orig, OKey)  Sa == Starts(adj, AKey) IN
                    {<<p, q>> \in So \X Sa : Overlap(So, p, Sa, q)}
Moved(p, d) == <<p[1] + d[1], p[2] + d[2]>>
\* token r of the result is explained by the pair <<p, q>>
Explains(orig, adj, pq, r) ==
    \E i \in DOMAIN orig, j \in DOMAIN adj :
        /\ OKey(orig[i]) = pq[1] /\ AKey(adj[j]) = pq[2]
        /\ Pos(r) = Moved(MaxPos(pq[1], pq[2]), Disp(adj[j]))
        /\ Src(r) = Src(orig[i]) /\ Sl(r) = Sl(orig[i]) /\ Sc(r) = Sc(orig[i])
        /\ Nm(r) = Nm(orig[i]) /\ Rg(r) = Rg(orig[i])
\* the relation the property states
ComposeOK(orig, adj, res) ==
    LET P == Pairs(orig, adj) IN
    /\ Len(res) = Cardinality(P)                                  \* exactly one token per non-empty overlap
    /\ \A k \in DOMAIN res : \E pq \in P : Explains(orig, adj, pq, res[k])
    /\ \A pq \in P : \E k \in DOMAIN res : Explains(orig, adj, pq, res[k])
    /\ Sorted(res)


(* ---------------------- documented deviation F11 ----------------------- *)
\* What the sweep of the pinned code does when several tokens share a start position: all but
\* one of them have an EMPTY stretch [p, p), yet an empty original stretch strictly inside an
\* adjustment stretch, and an empty adjustment stretch strictly inside an original stretch, still
\* emit a token.  The statement asks for one token per NON-EMPTY overlap, so this is a finding
\* (recorded as F11: the repository's own rspack fixture pins the behaviour, so it is not fixed).
Mult(ts, Key(_), p) == Cardinality({i \in DOMAIN ts : Key(ts[i]) = p})
HasDupStarts(orig, adj) == \/ \E i, j \in DOMAIN orig : i # j /\ OKey(orig[i]) = OKey(orig[j])
                           \/ \E i, j \in DOMAIN adj : i # j /\ AKey(adj[i]) = AKey(adj[j])
PinnedCount(orig, adj) ==
    LET P == Pairs(orig, adj)
        extra(pq) == (IF PosLt(pq[2], pq[1]) THEN Mult(orig, OKey, pq[1]) - 1 ELSE 0)
                   + (IF PosLt(pq[1], pq[2]) THEN Mult(adj, AKey, pq[2]) - 1 ELSE 0)
        seq == SetToSeq(P)
    IN FoldLeft(LAMBDA acc, pq : acc + 1 + extra(pq), 0, seq)
PinnedDeviationOK(orig, adj, res) ==
    LET P == Pairs(orig, adj) IN
    /\ Len(res) = PinnedCount(orig, adj)
    /\ \A k \in DOMAIN res : \E pq \in P : Explains(orig, adj, pq, res[k])
    /\ \A pq \in P : \E k \in DOMAIN res : Explains(orig, adj, pq, res[k])
    /\ Sorted(res)

(* ------------------------------ the sweep ------------------------------ *)
\* ranges: sequences of [s, e, v] sorted by s; built from a list already ordered by its key
Ranges(ts, Key(_)) == [i \in DOMAIN ts |->
    [s |-> Key(ts[i]),
     e |-> MinPos(IF i < Len(ts) THEN Key(ts[i + 1]) ELSE <<INF, INF>>, LineEnd(Key(ts[i]))),
     v |-> ts[i]]]
\* sweep state: ai = current adjustment range, oi = current original range, phase, out, done
SwInit == [ai |-> 1, oi |-> 1, phase |-> "skip", out |-> <<>>, done |-> FALSE]
SwStep(w, ro, ra) ==
    IF w.done THEN w
    ELSE IF ro = <<>> \/ w.ai > Len(ra) THEN [w EXCEPT !.done = TRUE]
    ELSE LET a == ra[w.ai]  o == ro[w.oi] IN
    CASE w.phase = "skip" ->                         \* SkipOriginal: ranges entirely before the adjustment range
            IF PosLe(o.e, a.s)
            THEN IF w.oi < Len(ro) THEN [w EXCEPT !.oi = w.oi + 1] ELSE [w EXCEPT !.done = TRUE]      \* Exhausted
            ELSE [w EXCEPT !.phase = "emit"]
      [] w.phase = "emit" ->
            IF PosLt(o.s, a.e)
            THEN LET p == MaxPos(o.s, a.s)  d == Disp(a.v)
                     t == Tok(p[1] + d[1], p[2] + d[2], Src(o.v), Sl(o.v), Sc(o.v), Nm(o.v), Rg(o.v))
                     w2 == [w EXCEPT !.out = Append(w.out, t)]                                     \* EmitClipped
                 IN IF PosLe(a.e, o.e) THEN [w2 EXCEPT !.ai = w.ai + 1, !.phase = "skip"]           \* NextAdjustment, keep original
                    ELSE IF w.oi < Len(ro) THEN [w2 EXCEPT !.oi = w.oi + 1]                         \* AdvanceOriginal
                    ELSE [w2 EXCEPT !.done = TRUE]                                                  \* Exhausted
            ELSE [w EXCEPT !.ai = w.ai + 1, !.phase = "skip"]                                       \* NextAdjustment
      [] OTHER -> w
=============================================================================
