------------------------------ MODULE RefResolve ------------------------------
(***************************************************************************)
(* Extension E09: SourceMapRef::resolve / resolve_path, specified as found. *)
(* The crate delegates to the `url` crate; over a CLOSED ALPHABET (a-z 0-9   *)
(* '.' '_' '-' '/' ':' '?' '#' '=' '&', nothing that is percent-encoded,    *)
(* no default ports, no Windows drive letters, hierarchical "special"       *)
(* schemes http / https / file) URL joining is arithmetic on path           *)
(* components, which this module writes down:                               *)
(*   - a reference beginning "data:" resolves to nothing;                   *)
(*   - a base that is not an absolute URL resolves to nothing;              *)
(*   - a reference with its own scheme replaces the base entirely;          *)
(*   - "//host/path" keeps the base's scheme only;                          *)
(*   - "/path" keeps scheme and host;                                       *)
(*   - an empty path keeps the base's path (and its query, unless the       *)
(*     reference has one);                                                  *)
(*   - any other reference replaces the LAST component of the base's path;  *)
(*   - "." and ".." are resolved; ".." never climbs above the root; a       *)
(*     final "." / ".." leaves a trailing "/";                              *)
(*   - the base's fragment is always dropped, the reference's kept.         *)
(* resolve_path: the minified path must be absolute; the answer exists only *)
(* if the resolved URL has no host, and is its path (query, fragment gone). *)
(* A URL is [scheme, host, comps, query, frag]; query / frag are <<>> or     *)
(* <<text>>; comps are the components after the leading '/', so "/" is      *)
(* << <<>> >>.                                                              *)
(***************************************************************************)
EXTENDS Detector

COLON == 58
DOT   == 46
QM    == 63
HASH  == 35
DATA  == <<100, 97, 116, 97, 58>>                    \* "data:"
FILE  == <<102, 105, 108, 101>>                      \* "file"
IsAlphaC(c) == c \in 97..122
IsSchemeC(c) == c \in 97..122 \/ c \in 48..57 \/ c \in {43, 45, 46}

\* index of the ':' ending a scheme, 0 if the text does not begin with one
SchemeEnd(r) ==
    IF r # <<>> /\ IsAlphaC(r[1]) /\ \E i \in 2..Len(r) : r[i] = COLON /\ \A j \in 2..(i - 1) : IsSchemeC(r[j])
    THEN CHOOSE i \in 2..Len(r) : r[i] = COLON /\ \A j \in 2..(i - 1) : IsSchemeC(r[j])
    ELSE 0

FirstOf(s, c) == IF \E i \in DOMAIN s : s[i] = c THEN CHOOSE i \in DOMAIN s : s[i] = c /\ \A j \in 1..(i - 1) : s[j] # c ELSE 0

\* split "path?query#frag"
Parts(r) ==
    LET h == FirstOf(r, HASH)
        nofrag == IF h = 0 THEN r ELSE SubSeq(r, 1, h - 1)
        q == FirstOf(nofrag, QM) IN
    [path  |-> IF q = 0 THEN nofrag ELSE SubSeq(nofrag, 1, q - 1),
     query |-> IF q = 0 THEN <<>> ELSE << SubSeq(nofrag, q + 1, Len(nofrag)) >>,
     frag  |-> IF h = 0 THEN <<>> ELSE << SubSeq(r, h + 1, Len(r)) >>]

\* dot segments: k = position, n = number of components, acc = what was kept
RECURSIVE DotNorm(_, _, _)
DotNorm(comps, k, acc) ==
    IF k > Len(comps) THEN acc
    ELSE LET c == comps[k]  last == (k = Len(comps)) IN
         IF c = <<DOT>> THEN DotNorm(comps, k + 1, IF last THEN Append(acc, <<>>) ELSE acc)
         ELSE IF c = <<DOT, DOT>> THEN
              LET popped == IF acc = <<>> THEN acc ELSE SubSeq(acc, 1, Len(acc) - 1) IN
              DotNorm(comps, k + 1, IF last THEN Append(popped, <<>>) ELSE popped)
         ELSE DotNorm(comps, k + 1, Append(acc, c))
NonEmpty(n) == IF n = <<>> THEN << <<>> >> ELSE n
NormComps(comps) == NonEmpty(DotNorm(comps, 1, <<>>))

\* components of a path text that starts with '/' ("" counts as "/")
AbsComps(p) == IF p = <<>> THEN << <<>> >> ELSE SplitOn(SubSeq(p, 2, Len(p)), SLASH)

\* "//host/path..." (the text after "scheme:")
ParseAuthority(scheme, rest) ==
    LET ps == Parts(SubSeq(rest, 3, Len(rest)))
        s == FirstOf(ps.path, SLASH)
        host == IF s = 0 THEN ps.path ELSE SubSeq(ps.path, 1, s - 1)
        path == IF s = 0 THEN <<>> ELSE SubSeq(ps.path, s, Len(ps.path)) IN
    [scheme |-> scheme, host |-> host, comps |-> NormComps(AbsComps(path)), query |-> ps.query, frag |-> ps.frag]

IsAbsUrl(u) == LET e == SchemeEnd(u) IN e > 0 /\ Len(u) >= e + 2 /\ u[e + 1] = SLASH /\ u[e + 2] = SLASH
ParseAbs(u) == LET e == SchemeEnd(u) IN ParseAuthority(SubSeq(u, 1, e - 1), SubSeq(u, e + 1, Len(u)))

JoinUrl(b, r) ==
    IF IsAbsUrl(r) THEN ParseAbs(r)
    ELSE IF Len(r) >= 2 /\ r[1] = SLASH /\ r[2] = SLASH THEN ParseAuthority(b.scheme, r)
    ELSE LET ps == Parts(r) IN
         IF ps.path = <<>> THEN [b EXCEPT !.query = IF ps.query = <<>> THEN b.query ELSE ps.query, !.frag = ps.frag]
         ELSE IF ps.path[1] = SLASH THEN [b EXCEPT !.comps = NormComps(AbsComps(ps.path)), !.query = ps.query, !.frag = ps.frag]
         ELSE \* the reference's components are applied to the base's directory AS IT STANDS: a ".." pops whatever
              \* component is last, the base's own components are not looked at again
              [b EXCEPT !.comps = NonEmpty(DotNorm(SplitOn(ps.path, SLASH), 1, SubSeq(b.comps, 1, Len(b.comps) - 1))),
                        !.query = ps.query, !.frag = ps.frag]

RECURSIVE PathText(_)
PathText(comps) == IF comps = <<>> THEN <<>> ELSE <<SLASH>> \o comps[1] \o PathText(Tail(comps))
UrlText(u) == u.scheme \o <<COLON, SLASH, SLASH>> \o u.host \o PathText(u.comps)
              \o (IF u.query = <<>> THEN <<>> ELSE <<QM>> \o u.query[1])
              \o (IF u.frag = <<>> THEN <<>> ELSE <<HASH>> \o u.frag[1])

\* "//" + nothing: only file URLs may lack a host; a file URL cannot carry a port
HostOK(u) == IF u.scheme = FILE THEN FirstOf(u.host, COLON) = 0 ELSE u.host # <<>>
HostName(h) == LET c == FirstOf(h, COLON) IN IF c = 0 THEN h ELSE SubSeq(h, 1, c - 1)
LOCALHOST == <<108, 111, 99, 97, 108, 104, 111, 115, 116>>
\* SourceMapRef::resolve(minified_url): <<>> or <<text>>
Resolve(ref, base) ==
    IF HasPrefix(ref, DATA) \/ ~IsAbsUrl(base) THEN <<>>
    ELSE LET u == JoinUrl(ParseAbs(base), ref) IN
         IF ~HostOK(u) THEN <<>> ELSE << UrlText(u) >>

\* SourceMapRef::resolve_path(minified_path): <<>> or <<path text>>
\* Url::from_file_path walks std::path components: empty and "." components vanish, ".." components STAY (as found)
FileUrlOf(p) == [scheme |-> FILE, host |-> <<>>, query |-> <<>>, frag |-> <<>>,
                 comps |-> NonEmpty(SelectSeq(AbsComps(p), LAMBDA c : c # <<>> /\ c # <<DOT>>))]
ResolvePath(ref, p) ==
    IF HasPrefix(ref, DATA) \/ p = <<>> \/ p[1] # SLASH THEN <<>>
    ELSE LET u == JoinUrl(FileUrlOf(p), ref) IN
         \* DEVIATION ResolvePathAnswersForLocalhostOfAnyScheme (as found): the test is on the host alone, so the reference
         \* "https://localhost:3000/x.map" resolves to the local path "/x.map"
         IF ~HostOK(u) \/ HostName(u.host) \notin {<<>>, LOCALHOST} THEN <<>> ELSE << PathText(u.comps) >>
=============================================================================
