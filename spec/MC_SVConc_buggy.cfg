CONSTANTS
  Threads = {1,2}
  Algo = "split"
  Texts <- T_small
  CallPool <- Pool_small
  MaxCalls = 1
SPECIFICATION Spec
INVARIANTS Safe
VIEW View
CHECK_DEADLOCK FALSE
