------------------------------ MODULE MC_MapExt ------------------------------
(* seek on every ordered position list x query: characterises exactly when   *)
(* the as-found behaviour deviates from the expected one.                    *)
EXTENDS MapExt, Json
CONSTANTS MaxToks, Lines, Cols
VARIABLES phase, ts, q
vars == <<phase, ts, q>>
Queries == {<<l, c>> : l \in Lines \cup {3}, c \in Cols \cup {1, 4}}
Init == phase = "build" /\ ts = <<>> /\ q = <<0, 0>>
AddToken == /\ phase = "build" /\ Len(ts) < MaxToks
            /\ \E l \in Lines, c \in Cols :
                 /\ (IF ts = <<>> THEN TRUE ELSE PosLe(Pos(ts[Len(ts)]), <<l, c>>))
                 /\ ts' = Append(ts, Tok(l, c, 0, Len(ts), 2, -1, 0))
            /\ UNCHANGED <<phase, q>>
Ask == phase = "build" /\ phase' = "ask" /\ (\E qq \in Queries : q' = qq) /\ UNCHANGED ts
Next == AddToken \/ Ask
Spec == Init /\ [][Next]_vars
\* the deviation occurs exactly on inexact hits that are not at the end of the map
DeviationCharacterised == phase = "ask" =>
    (SeekDeviates(ts, q) <=> (SeekFound(ts, q) /\ ~(\E i \in DOMAIN ts : Pos(ts[i]) = q)
                              /\ Reported(ts, q) + 1 <= Len(ts)))
ExactSeekIsAsExpectedWithoutTies ==
    (phase = "ask" /\ Cardinality({i \in DOMAIN ts : Pos(ts[i]) = q}) = 1)
        => NextAfterSeek(ts, q) = ExpectedNextAfterSeek(ts, q)
EmitCase == (phase = "ask" /\ q = <<0, 0>>) =>
    PrintT("CASE " \o ToJson([op |-> "seek", toks |-> ts, nsrc |-> 1, nnm |-> 0, qs |-> SetToSeq(Queries)]))
=============================================================================
