------------------------------ MODULE MC_Adjust ------------------------------
(* Every pair (original, adjustment) of small token lists over a grid:      *)
(* duplicated positions on either side (with every order a sort may leave   *)
(* them in), adjustment given in any order, multi-line displacement.        *)
EXTENDS Adjust, Json
CONSTANTS MaxO, MaxA, Lines, Cols, Dups
DispSet == {<<0, 0>>, <<0, 2>>, <<1, 0>>, <<1, 1>>}
VARIABLES phase, orig, adj, w
vars == <<phase, orig, adj, w>>
Init == phase = "build" /\ orig = <<>> /\ adj = <<>> /\ w = SwInit
\* original tokens in key order (ties in any order); payload: original line = insertion index
AddOrig == /\ phase = "build" /\ Len(orig) < MaxO /\ adj = <<>>
           /\ \E l \in Lines, c \in Cols :
                /\ (IF orig = <<>> THEN TRUE
                    ELSE IF Dups THEN PosLe(OKey(orig[Len(orig)]), <<l, c>>) ELSE PosLt(OKey(orig[Len(orig)]), <<l, c>>))
                /\ orig' = Append(orig, Tok(l, c, 0, Len(orig), 7, -1, 0))
           /\ UNCHANGED <<phase, adj, w>>
\* adjustment tokens in key (original position) order, each with a displacement
AddAdj == /\ phase = "build" /\ Len(adj) < MaxA
          /\ \E l \in Lines, c \in Cols, d \in DispSet :
                /\ (IF adj = <<>> THEN TRUE
                    ELSE IF Dups THEN PosLe(AKey(adj[Len(adj)]), <<l, c>>) ELSE PosLt(AKey(adj[Len(adj)]), <<l, c>>))
                /\ adj' = Append(adj, Tok(l + d[1], c + d[2], 0, l, c, -1, 0))
          /\ UNCHANGED <<phase, orig, w>>
Start == phase = "build" /\ phase' = "sweep" /\ UNCHANGED <<orig, adj, w>>
Sweep == /\ phase = "sweep" /\ ~w.done
         /\ w' = SwStep(w, Ranges(orig, OKey), Ranges(adj, AKey))
         /\ UNCHANGED <<phase, orig, adj>>
Next == AddOrig \/ AddAdj \/ Start \/ Sweep
Spec == Init /\ [][Next]_vars

SortByPos(ts) == LET idx == SetToSortSeq(DOMAIN ts, LAMBDA i, j : PosLt(Pos(ts[i]), Pos(ts[j])) \/ (Pos(ts[i]) = Pos(ts[j]) /\ i < j))
                 IN [n \in 1..Len(ts) |-> ts[idx[n]]]
Done == phase = "sweep" /\ w.done
SweepIsDeclarative == Done => ComposeOK(orig, adj, SortByPos(w.out))
\* with duplicated start positions the pinned sweep is exactly the documented deviation F11
SweepIsPinnedDeviation == Done => PinnedDeviationOK(orig, adj, SortByPos(w.out))
NoDupsNoDeviation == (Done /\ ~HasDupStarts(orig, adj)) => ComposeOK(orig, adj, SortByPos(w.out))
EmitCase == Done => PrintT("CASE " \o ToJson([op |-> "adjust", orig |-> orig, adj |-> adj]))
=============================================================================
