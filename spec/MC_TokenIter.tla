--------------------------- MODULE MC_TokenIter ---------------------------
(* Bounded exhaustive model of the token iterator (C04): every session of   *)
(* at most MaxSteps stepping calls followed by one consuming call, over a   *)
(* map of N tokens.  The cursor machine is run one `next()` at a time (the  *)
(* way the default methods of Rust's Iterator are defined: nth(n) = n+1     *)
(* calls of next, skip(n)/step_by(k) likewise) and TLC checks that this     *)
(* refines the closed forms of TokenIter!StepOK; finished sessions are      *)
(* printed and replayed on the real iterator.                               *)
EXTENDS TokenIter, MapModel, Json

CONSTANTS N, MaxSteps, MaxArg

Toks == [i \in 1..N |-> Tok(i \div 2, 3 * i, 0, i, 1, -1, 0)]
StepSet == {[op |-> "next", n |-> 0], [op |-> "hint", n |-> 0]} \cup {[op |-> "nth", n |-> k] : k \in 0..MaxArg}
FinalSet == {[op |-> o, n |-> 0] : o \in {"rest", "last", "count"}}
            \cup {[op |-> "skip", n |-> k] : k \in 0..MaxArg} \cup {[op |-> "step_by", n |-> k] : k \in 1..(MaxArg + 1)}

\* cur: cursor;  steps/outs: the session so far;  yielded: indices handed out, in order;
\* pend: next() calls still owed by the running nth;  done: a final op has consumed the iterator
VARIABLES cur, steps, outs, yielded, pend, done
vars == <<cur, steps, outs, yielded, pend, done>>

Init == cur = 0 /\ steps = <<>> /\ outs = <<>> /\ yielded = <<>> /\ pend = 0 /\ done = FALSE

\* one primitive next(): the only thing that moves the cursor
Prim == IF cur < N THEN cur + 1 ELSE cur

Call == /\ ~done /\ pend = 0 /\ Len(steps) < MaxSteps
        /\ \E st \in StepSet :
             /\ steps' = Append(steps, st)
             /\ IF st.op = "hint" THEN /\ outs' = Append(outs, Answer(Toks, cur, st))
                                       /\ UNCHANGED <<cur, yielded, pend>>
                ELSE IF st.op = "next" THEN /\ cur' = Prim
                                            /\ outs' = Append(outs, IF cur < N THEN << Toks[cur + 1] >> ELSE <<>>)
                                            /\ yielded' = IF cur < N THEN Append(yielded, cur + 1) ELSE yielded
                                            /\ pend' = 0
                ELSE /\ pend' = st.n + 1            \* nth(n): n + 1 primitive steps, the last one is the answer
                     /\ UNCHANGED <<cur, outs, yielded>>
        /\ UNCHANGED done
\* the default nth: discard n items, return the next
NthStep == /\ pend > 0
           /\ cur' = Prim
           /\ pend' = IF cur < N THEN pend - 1 ELSE 0
           /\ IF pend = 1 \/ cur >= N
              THEN /\ outs' = Append(outs, IF cur < N THEN << Toks[cur + 1] >> ELSE <<>>)
                   /\ yielded' = IF cur < N THEN Append(yielded, cur + 1) ELSE yielded
              ELSE UNCHANGED <<outs, yielded>>
           /\ UNCHANGED <<steps, done>>
Finish == /\ ~done /\ pend = 0
          /\ \E st \in FinalSet :
               /\ steps' = Append(steps, st)
               /\ outs' = Append(outs, Answer(Toks, cur, st))
          /\ done' = TRUE /\ cur' = N
          /\ UNCHANGED <<yielded, pend>>
Next == Call \/ NthStep \/ Finish
Spec == Init /\ [][Next]_vars

\* the one-next-at-a-time machine agrees with the closed forms
MachineRefinesClosedForm == (pend = 0) => IterOK(Toks, steps, outs)
\* tokens are handed out in strictly increasing index order: nothing is yielded twice, nothing goes back
YieldedIncreasing == \A i \in 1..(Len(yielded) - 1) : yielded[i] < yielded[i + 1]
\* a session of plain next() calls hands out a prefix of the token list, i.e. the i-th is get_token(i)
PlainNextIsIndexing == (\A i \in DOMAIN steps : steps[i].op = "next") =>
                         \A i \in DOMAIN yielded : yielded[i] = i
CursorMonotone == [][cur' >= cur]_vars
\* generated positions of what is handed out never decrease
YieldedSorted == \A i \in 1..(Len(yielded) - 1) : PosLe(Pos(Toks[yielded[i]]), Pos(Toks[yielded[i + 1]]))

EmitCase == done => PrintT("CASE " \o ToJson([op |-> "iterate", toks |-> Toks, nsrc |-> 1, nnm |-> 0, how |-> "new", steps |-> steps]))
=============================================================================
