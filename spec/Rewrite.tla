------------------------------- MODULE Rewrite -------------------------------
(***************************************************************************)
(* SourceMap::rewrite with in-memory options (C09), on top of the interning *)
(* builder: every token is re-added in order with its source NAME (joined   *)
(* with the root) and, unless names are dropped, its name; contents follow  *)
(* the source name; listed prefixes are stripped afterwards (first match).  *)
(* p is the projection of the input map (doc.rs): toks in iteration order,  *)
(* sources (joined, code points), names, contents (one per source), file,   *)
(* debug_id.  opts = [names, contents : BOOLEAN, prefixes : Seq(code pts)]. *)
(***************************************************************************)
EXTENDS Builder

StripOne(s, prefixes) == StripFirst(s, prefixes)          \* Builder!StripFirst: first listed prefix that matches

HasContents(b, id) == id + 1 <= Len(b.contents) /\ b.contents[id + 1] # <<>>

\* one step of the rewrite loop: re-add token t of map p
RwStep(b, t, p, opts) ==
    LET src == IF Src(t) = -1 THEN <<>> ELSE <<p.sources[Src(t) + 1]>>
        nm  == IF opts.names /\ Nm(t) # -1 THEN <<p.names[Nm(t) + 1]>> ELSE <<>>
        call == [op |-> "add", pos |-> <<Dl(t), Dc(t), Sl(t), Sc(t), Rg(t)>>, src |-> src, name |-> nm]
        b2 == BApply(b, call).st
        newid == IF src = <<>> THEN -1 ELSE Id(b.srcs, src[1])
    IN IF src # <<>> /\ opts.contents /\ ~HasContents(b2, newid)
       THEN [b2 EXCEPT !.contents = [PadTo(b2.contents, Len(b2.srcs)) EXCEPT ![newid + 1] = p.contents[Src(t) + 1]]]
       ELSE b2

RwInit(p) == [BInit EXCEPT !.file = p.file, !.debug = p.debug_id]
RwFinish(b, opts) == [b EXCEPT !.srcs = [i \in DOMAIN b.srcs |-> StripOne(b.srcs[i], opts.prefixes)]]
RewriteSpec(p, opts) == RwFinish(FoldLeft(LAMBDA b, t : RwStep(b, t, p, opts), RwInit(p), p.toks), opts)

\* the observed result o (a projection) is what the specification computes
RewriteOK(p, opts, o) ==
    LET b == RewriteSpec(p, opts) IN
    /\ (IF StrictlySorted(b.toks) THEN o.toks = b.toks ELSE Sorted(o.toks) /\ SameBag(o.toks, b.toks))
    /\ o.sources = b.srcs                    \* no root on the rewritten map: names are the joined, stripped names
    /\ o.names = b.names
    /\ o.contents = Contents(b)
    /\ o.file = p.file /\ o.debug_id = p.debug_id

(* ---- what the property states, as consequences checked on the model ---- *)
\* resolved view of token i of a flat map state
Resolved(srcs, names, t) == <<Dl(t), Dc(t), IF Src(t) = -1 THEN <<>> ELSE <<srcs[Src(t) + 1]>>, Sl(t), Sc(t),
                              IF Nm(t) = -1 THEN <<>> ELSE <<names[Nm(t) + 1]>>, Rg(t)>>
SameResolution(p, opts, b) ==
    /\ Len(b.toks) = Len(p.toks)
    /\ \A i \in DOMAIN p.toks :
         LET a == Resolved([k \in DOMAIN p.sources |-> StripOne(p.sources[k], opts.prefixes)], p.names, p.toks[i])
             c == Resolved(b.srcs, b.names, b.toks[i])
         IN /\ a[1] = c[1] /\ a[2] = c[2] /\ a[3] = c[3] /\ a[4] = c[4] /\ a[5] = c[5] /\ a[7] = c[7]
            /\ (opts.names => a[6] = c[6]) /\ (~opts.names => c[6] = <<>>)
NothingUnreferenced(b) ==
    /\ \A i \in DOMAIN b.srcs : \E k \in DOMAIN b.toks : Src(b.toks[k]) = i - 1
    /\ \A i \in DOMAIN b.names : \E k \in DOMAIN b.toks : Nm(b.toks[k]) = i - 1
=============================================================================
