----------------------------- MODULE Trace_Map -----------------------------
(* Trace validation for the map family: C01 (roundtrip), C03 (encode),      *)
(* C04 (ordering, lookups), C07 (range flags through roundtrip, lookups).   *)
EXTENDS MapModel, Json, IOUtils

It == INSTANCE TokenIter
Rec == ndJsonDeserialize(IOEnv.TRACE)
VARIABLES l, bad, free
vars == <<l, bad, free>>

JudgeRoundTrip(e) ==
    /\ e.out.k = "ok"
    /\ e.out.same                                         \* 2nd and 3rd serialisation byte-identical
    /\ e.out.detect                                       \* the serialised form is recognised as a source map
    /\ e.out.reader_same                                  \* decoding it from a reader gives the same map as from a slice
    /\ (Has(e.args.m) => BuiltMatches(Get(e.args.m), e.args.p1))
    /\ (Has(e.args.doc) => DocStatus(Get(e.args.doc)) = "ok" /\ MatchDoc(Get(e.args.doc), e.args.p1))
    /\ RoundTripEq(e.args.p1, e.out.p2)

\* (a serialised form that is not even a JSON object is logged as [bad |-> ...]: rejected, not an evaluation error)
JudgeEncode(e) == e.out.k = "ok" /\ "bad" \notin DOMAIN e.out.doc /\ EncodeOK(e.args.p1, e.out.doc)

JudgeLookups(e) ==
    /\ e.out.k = "ok"
    /\ Len(e.out.rs) = Len(e.args.qs)
    /\ \A i \in DOMAIN e.args.qs : LookupOK(e.args.toks, e.args.qs[i], e.out.rs[i])

JudgeOrdering(e) == e.out.k = "ok" /\ OrderingOK(e.out)
\* an iterator session (next / nth / size_hint, then a consuming adaptor) against the cursor machine;
\* args.toks is what get_token(0..) reports
JudgeIterate(e) == e.out.k = "ok" /\ It!IterOK(e.args.toks, e.args.steps, e.out.outs)

\* full-range positions: the crate's mappings text decoded with exact arithmetic gives the map's tokens
JudgeEncodeBig(e) == /\ e.out.k = "ok"
                     /\ LET r == DecodeV(e.out.mappings, e.args.nsrc, e.args.nnm) IN
                        r.k = "ok" /\ VToksEq(r.toks, e.args.vtoks)
\* a sink that fails at byte `at` < len: the failure is reported (Ok would claim a complete document the sink does not hold),
\* and what the sink did take is a prefix of the serialised form
JudgeEncodeFail(e) == /\ e.out.k = "ok" /\ e.out.prefix_ok /\ e.out.delivered <= e.args.at
                      /\ (e.args.at < e.args.len => e.out.res = "err")
\* one line of more than 2^16 segments: the same segments carry the range flag after the round trip, no token is lost, and
\* a lookup one column inside each flagged range reports the original column shifted by one
JudgeBigLine(e) == /\ e.out.k = "ok" /\ e.out.n2 = e.args.n + 1 /\ e.out.flags2 = e.args.flags
                   /\ e.out.shifts = [i \in 1..e.args.nshift |-> 1]
Judge(e) == CASE e.op = "roundtrip" -> JudgeRoundTrip(e)
              [] e.op = "bigline" -> JudgeBigLine(e)
              [] e.op = "encode_fail" -> JudgeEncodeFail(e)
              [] e.op = "encode_big" -> JudgeEncodeBig(e)
              [] e.op = "encode" -> JudgeEncode(e)
              [] e.op = "lookups" -> JudgeLookups(e)
              [] e.op = "ordering" -> JudgeOrdering(e)
              [] e.op = "iterate" -> JudgeIterate(e)
              [] OTHER -> FALSE
Free(e) == FALSE

Init == l = 1 /\ bad = <<>> /\ free = <<>>
Next == /\ l <= Len(Rec)
        /\ l' = l + 1
        /\ bad' = IF Judge(Rec[l]) THEN bad ELSE Append(bad, Rec[l].i)
        /\ free' = IF Free(Rec[l]) THEN Append(free, Rec[l].i) ELSE free
Spec == Init /\ [][Next]_vars
Report == (l = Len(Rec) + 1) => PrintT("RESULT " \o ToJson([events |-> Len(Rec), bad |-> bad, free |-> free]))
=============================================================================
