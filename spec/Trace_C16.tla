----------------------------- MODULE Trace_C16 -----------------------------
(* C16: every call made by any thread on the shared view must return what   *)
(* the same call returns on a fresh view used by a single thread (the       *)
(* history-independent declarative answer of SourceView.tla), no call may   *)
(* panic, and every case must end with all calls answered (no deadlock).    *)
EXTENDS SourceView, TLC, Json, IOUtils
Rec == ndJsonDeserialize(IOEnv.TRACE)
VARIABLES l, bad, free
vars == <<l, bad, free>>
Call(e) == [op |-> e.op, i |-> e.args.i, line |-> e.args.line, c |-> e.args.c, n |-> e.args.n]
Judge(e) == IF e.op = "end" THEN e.out.k = "ok" /\ e.out.answered = e.out.expected
            ELSE IF e.args.rep # <<>> THEN e.out.k = "ok" /\ e.out.ret = RepDecl(e.args.rep[1].unit, e.args.rep[1].n, Call(e))
            ELSE e.out.k = "ok" /\ e.out.ret = Decl(e.args.text, Call(e))
Free(e) == FALSE
Init == l = 1 /\ bad = <<>> /\ free = <<>>
Next == /\ l <= Len(Rec)
        /\ l' = l + 1
        /\ bad' = IF Judge(Rec[l]) THEN bad ELSE Append(bad, Rec[l].i)
        /\ free' = IF Free(Rec[l]) THEN Append(free, Rec[l].i) ELSE free
Spec == Init /\ [][Next]_vars
Report == (l = Len(Rec) + 1) => PrintT("RESULT " \o ToJson([events |-> Len(Rec), bad |-> bad, free |-> free]))
=============================================================================
