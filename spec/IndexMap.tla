------------------------------ MODULE IndexMap ------------------------------
(***************************************************************************)
(* Index maps (C08): section lookup and flattening.  A node is either a     *)
(* flat map projection [kind, toks, sources, names, contents, ignore, ...]  *)
(* (kind "regular" / "hermes") or an index [kind |-> "index", file,         *)
(* sections] with sections = Seq([off, url, map]) and map = <<>> / <<node>>.*)
(* Flattening re-adds every token through the interning builder model.      *)
(***************************************************************************)
EXTENDS Rewrite

StablePosSort(ts) ==
    LET idx == SetToSortSeq(DOMAIN ts, LAMBDA i, j : PosLt(Pos(ts[i]), Pos(ts[j])) \/ (Pos(ts[i]) = Pos(ts[j]) /\ i < j))
    IN [n \in 1..Len(ts) |-> ts[idx[n]]]

\* re-add token t of flat map m, which sits in a section at offset off
FlStep(b, t, off, m) ==
    LET src == IF Src(t) = -1 THEN <<>> ELSE <<m.sources[Src(t) + 1]>>
        nm  == IF Nm(t) = -1 THEN <<>> ELSE <<m.names[Nm(t) + 1]>>
        dc2 == IF Dl(t) = 0 THEN Dc(t) + off[2] ELSE Dc(t)          \* column offset on the section's first line only
        call == [op |-> "add", pos |-> <<Dl(t) + off[1], dc2, Sl(t), Sc(t), Rg(t)>>, src |-> src, name |-> nm]
        b2 == BApply(b, call).st
        newid == IF src = <<>> THEN -1 ELSE Id(b.srcs, src[1])
        b3 == IF src # <<>> /\ ~HasContents(b2, newid)               \* first-seen contents per source name
              THEN [b2 EXCEPT !.contents = [PadTo(b2.contents, Len(b2.srcs)) EXCEPT ![newid + 1] = m.contents[Src(t) + 1]]]
              ELSE b2
    IN IF Src(t) # -1 /\ Src(t) \in SeqRange(m.ignore) THEN [b3 EXCEPT !.ignore = b3.ignore \cup {newid}] ELSE b3

AsFlat(b, file) == [kind |-> "regular", toks |-> StablePosSort(b.toks), sources |-> b.srcs, names |-> b.names,
                    contents |-> Contents(b), ignore |-> SetToSortSeq(b.ignore, <), file |-> file]

\* [ok, m]: flattening fails iff some (nested) section has no embedded map
RECURSIVE FlattenIdx(_)
FlattenIdx(idx) ==
    LET step(acc, s) ==
            IF ~acc.ok THEN acc
            ELSE IF s.map = <<>> THEN [acc EXCEPT !.ok = FALSE]
            ELSE LET node == s.map[1]
                     inner == IF node.kind = "index" THEN FlattenIdx(node) ELSE [ok |-> TRUE, m |-> node]
                 IN IF ~inner.ok THEN [acc EXCEPT !.ok = FALSE]
                    ELSE [acc EXCEPT !.b = FoldLeft(LAMBDA b, t : FlStep(b, t, s.off, inner.m), acc.b, inner.m.toks)]
        r == FoldLeft(step, [ok |-> TRUE, b |-> [BInit EXCEPT !.file = idx.file]], idx.sections)
    IN [ok |-> r.ok, m |-> AsFlat(r.b, idx.file)]

\* ---- lookup ----
\* original location a flat map reports for query q: <<>> or <<[src, sl, sc, nm]>>
FlatLookup(m, q) ==
    LET c == {i \in DOMAIN m.toks : PosLe(Pos(m.toks[i]), q)} IN
    IF c = {} THEN <<>>
    ELSE LET i == CHOOSE x \in c : \A y \in c : y <= x          \* tokens are strictly ordered in the judged maps
             t == m.toks[i]
         IN << [src |-> IF Src(t) = -1 THEN <<>> ELSE <<m.sources[Src(t) + 1]>>,
                sl |-> Sl(t),
                sc |-> IF Rg(t) = 1 /\ Dl(t) = q[1] THEN Sc(t) + (q[2] - Dc(t)) ELSE Sc(t),
                nm |-> IF Nm(t) = -1 THEN <<>> ELSE <<m.names[Nm(t) + 1]>>] >>
RECURSIVE IdxLookup(_, _)
IdxLookup(idx, q) ==
    LET c == {i \in DOMAIN idx.sections : PosLe(idx.sections[i].off, q)} IN
    IF c = {} THEN <<>>
    ELSE LET i == CHOOSE x \in c : \A y \in c : PosLe(idx.sections[y].off, idx.sections[x].off) /\ (idx.sections[y].off = idx.sections[x].off => y <= x)
             s == idx.sections[i]
             rel == <<q[1] - s.off[1], IF q[1] = s.off[1] THEN q[2] - s.off[2] ELSE q[2]>>
         IN IF s.map = <<>> THEN <<>>
            ELSE IF s.map[1].kind = "index" THEN IdxLookup(s.map[1], rel)
            ELSE FlatLookup(s.map[1], rel)

\* ---- well-formedness the property quantifies over ----
RECURSIVE WellFormedIdx(_)
WellFormedIdx(idx) ==
    /\ \A i \in 1..(Len(idx.sections) - 1) : PosLt(idx.sections[i].off, idx.sections[i + 1].off)
    /\ \A i \in DOMAIN idx.sections :
         LET s == idx.sections[i] IN
         s.map # <<>> =>
            LET inner == IF s.map[1].kind = "index" THEN FlattenIdx(s.map[1]) ELSE [ok |-> TRUE, m |-> s.map[1]] IN
            /\ (s.map[1].kind = "index" => WellFormedIdx(s.map[1]))
            /\ inner.ok => /\ StrictlySorted(inner.m.toks)
                           /\ (i < Len(idx.sections) =>
                                 \A k \in DOMAIN inner.m.toks :
                                    LET t == inner.m.toks[k]
                                        ap == <<Dl(t) + s.off[1], IF Dl(t) = 0 THEN Dc(t) + s.off[2] ELSE Dc(t)>>
                                    IN PosLt(ap, idx.sections[i + 1].off))
\* the theorem of C08
Agreement(idx, q) ==
    LET f == FlattenIdx(idx)  r == IdxLookup(idx, q) IN
    (f.ok /\ r # <<>>) => FlatLookup(f.m, q) = r
=============================================================================
