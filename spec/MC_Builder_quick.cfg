CONSTANTS
  Depth = 2
  MapDepth = 1
SPECIFICATION Spec
INVARIANTS InterningTablesDistinct IdsStable TokensAlwaysResolve JoinIdempotentOnAbsolute EmitCase
CHECK_DEADLOCK FALSE
