CONSTANTS
  Depth = 2
  MapDepth = 1
  Narrow = FALSE
SPECIFICATION Spec
INVARIANTS InterningTablesDistinct IdsStable TokensAlwaysResolve JoinIdempotentOnAbsolute EmitCase
CHECK_DEADLOCK FALSE
