--------------------------- MODULE MC_HeaderReader ---------------------------
(* Every input of up to MaxLen byte classes x EVERY chunking of the stream: *)
(* the inner reader may return any number of bytes >= 1 at each read.       *)
EXTENDS HeaderReader, TLC, Json
CONSTANTS MaxLen
Classes == {41, 39, CR, LF, 120}      \*  ')'  '\''  CR  LF  'x'
VARIABLES phase, input, rest, st, sizes
vars == <<phase, input, rest, st, sizes>>
Init == phase = "build" /\ input = <<>> /\ rest = <<>> /\ st = RInit /\ sizes = <<>>
AddByte == /\ phase = "build" /\ Len(input) < MaxLen
           /\ \E b \in Classes : input' = Append(input, b)
           /\ UNCHANGED <<phase, rest, st, sizes>>
Start == phase = "build" /\ phase' = "read" /\ rest' = input /\ UNCHANGED <<input, st, sizes>>
\* the inner reader returns the next k bytes, for any k
InnerRead == /\ phase = "read" /\ rest # <<>> /\ ~st.err
             /\ \E k \in 1..Len(rest) :
                   /\ st' = ChunkStep(st, SubSeq(rest, 1, k))
                   /\ rest' = SubSeq(rest, k + 1, Len(rest))
                   /\ sizes' = Append(sizes, k)
             /\ UNCHANGED <<phase, input>>
Finish == /\ phase = "read" /\ (rest = <<>> \/ st.err)
          /\ phase' = "done" /\ UNCHANGED <<input, rest, st, sizes>>
Next == AddByte \/ Start \/ InnerRead \/ Finish
Spec == Init /\ [][Next]_vars

Done == phase = "done"
\* whatever the chunking, the reader has the declarative meaning
ReaderIsDeclarative == Done => (st.err = DeclErr(input)) /\ (~st.err => st.out = DeclPayload(input))
\* the slice function has it too, and differs from the reader only by the kept newline
SliceIsDeclarative == Done => LET r == SliceStrip(input) IN
                              r.err = DeclErr(input) /\ (~r.err => r.rest = DeclSlice(input))
ReaderAgreesWithSlice == Done => LET r == SliceStrip(input) IN
    /\ r.err = st.err
    /\ (~r.err => (r.rest = st.out \/ r.rest = <<LF>> \o st.out))
\* nothing is delivered while the header is undecided; delivered bytes are a suffix of the input
DeliveredIsSuffix == (Done /\ ~st.err) => IsSuffix(st.out, input)
FoldIsMachine == Done => RunReader(input, sizes).out = st.out /\ RunReader(input, sizes).err = st.err

EmitCase == Done => PrintT("CASE " \o ToJson([op |-> "read", input |-> input, sizes |-> sizes]))
=============================================================================
