----------------------------- MODULE Trace_C10 -----------------------------
(* C10: every recorded adjust_mappings result must satisfy the declarative  *)
(* composition relation of Adjust.tla.                                      *)
EXTENDS Adjust, Json, IOUtils
Rec == ndJsonDeserialize(IOEnv.TRACE)
VARIABLES l, bad, free, known
vars == <<l, bad, free, known>>
Judge(e) == /\ e.op = "adjust" /\ e.out.k = "ok"
            /\ ComposeOK(e.args.orig, e.args.adj, e.out.toks)
            /\ e.out.tables_untouched                      \* sources, names, contents are not touched
\* the event is rejected, but it is exactly the documented deviation F11 (duplicated start positions)
IsF11(e) == /\ e.op = "adjust" /\ e.out.k = "ok" /\ e.out.tables_untouched
            /\ HasDupStarts(e.args.orig, e.args.adj)
            /\ PinnedDeviationOK(e.args.orig, e.args.adj, e.out.toks)
Free(e) == FALSE
Init == l = 1 /\ bad = <<>> /\ free = <<>> /\ known = <<>>
Next == /\ l <= Len(Rec)
        /\ l' = l + 1
        /\ bad' = IF Judge(Rec[l]) THEN bad ELSE Append(bad, Rec[l].i)
        /\ known' = IF ~Judge(Rec[l]) /\ IsF11(Rec[l]) THEN Append(known, [i |-> Rec[l].i, tag |-> "F11"]) ELSE known
        /\ free' = IF Free(Rec[l]) THEN Append(free, Rec[l].i) ELSE free
Spec == Init /\ [][Next]_vars
Report == (l = Len(Rec) + 1) => PrintT("RESULT " \o ToJson([events |-> Len(Rec), bad |-> bad, free |-> free, known |-> known]))
=============================================================================
