CONSTANTS
  MaxLen = 6
SPECIFICATION Spec
INVARIANTS ReaderIsDeclarative SliceIsDeclarative ReaderAgreesWithSlice DeliveredIsSuffix FoldIsMachine EmitCase
CHECK_DEADLOCK FALSE
