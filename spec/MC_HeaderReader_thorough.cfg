CONSTANTS
  MaxLen = 7
SPECIFICATION Spec
INVARIANTS ReaderIsDeclarative SliceIsDeclarative ReaderAgreesWithSlice DeliveredIsSuffix FoldIsMachine EmitCase
CHECK_DEADLOCK FALSE
