CONSTANTS
  MaxText = 4
  Depth = 1
  Slices = TRUE
SPECIFICATION Spec
INVARIANTS AnswerIsDeclarative IndexIsConsistent LinesRejoin EmitCase
CHECK_DEADLOCK FALSE
