CONSTANTS
  MaxLines = 4
SPECIFICATION Spec
INVARIANTS ScanIsDeclarative UrlIsTrimmed PreambleAccepted EmitCase
CHECK_DEADLOCK FALSE
