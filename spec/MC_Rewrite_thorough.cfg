CONSTANTS
  MaxToks = 3
SPECIFICATION Spec
INVARIANTS FoldIsMachine ResolutionPreserved Compact NoDupBeforeStrip ContentsFollowNames EmitCase
CHECK_DEADLOCK FALSE
