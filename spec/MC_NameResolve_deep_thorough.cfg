CONSTANTS
  Wide = FALSE
  MaxFrags = 4
SPECIFICATION Spec
INVARIANTS WalkFindsFirstPair NonIdentifierNeverResolves EmitCase
CHECK_DEADLOCK FALSE
