CONSTANTS
  NSegs = 3
  Faults = TRUE
  FaultSegs = 2
  Wide = FALSE
SPECIFICATION Spec
INVARIANTS MachineIsDeclarative FoldIsMachine MalformedRejected IndicesResolve LinesNonDecreasing LineIsSemiCount ExactAgrees EmitCase
CHECK_DEADLOCK FALSE
