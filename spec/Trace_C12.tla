----------------------------- MODULE Trace_C12 -----------------------------
(* C12: replay every recorded read schedule through the reader machine of   *)
(* HeaderReader.tla and compare what the real StripHeaderReader delivered;  *)
(* compare reader / slice / data-URL decoding outcomes.                     *)
EXTENDS HeaderReader, TLC, Json, IOUtils
Rec == ndJsonDeserialize(IOEnv.TRACE)
VARIABLES l, bad, free
vars == <<l, bad, free>>

\* "reader": args.input, args.served (inner chunk sizes actually served); out.err, out.delivered; out.slice
JudgeReader(e) ==
    LET m == RunReader(e.args.input, e.args.served)  i == e.args.input IN
    /\ e.out.k = "ok"
    /\ e.out.err = m.err /\ e.out.err = DeclErr(i)
    /\ (~m.err => e.out.delivered = m.out /\ e.out.delivered = DeclPayload(i))
    /\ e.out.slice.err = DeclErr(i)
    /\ (~DeclErr(i) => e.out.slice.rest = DeclSlice(i))

SameOutcome(a, b) == a.k = b.k /\ (a.k = "ok" => a = b)
JudgeDecode(e) ==
    /\ e.out.k = "ok"
    /\ SameOutcome(e.out.reader, e.out.slice)                 \* reader = slice, however chunked
    /\ SameOutcome(e.out.reader_int, e.out.slice)             \* ... also when reads are interrupted now and then (callers retry)
    /\ e.out.is_reader = e.out.is_slice                       \* detection predicates agree
    /\ e.out.is_reader_int = e.out.is_slice
    \* a source that delivers a proper prefix and then fails with a hard error: the failure is not more data -- when the
    \* delivered prefix, read as a slice, is no map (no source map), the reader route yields none either.  (When the prefix
    \* happens to be a complete document the statement does not say whether the failure is reported: left free.)
    /\ \A j \in DOMAIN e.out.reader_fail : e.out.prefix_slice[j] = "err" => e.out.reader_fail[j] = "err"
    /\ \A j \in DOMAIN e.out.is_reader_fail : ~e.out.is_prefix_slice[j] => ~e.out.is_reader_fail[j]
    /\ SameOutcome(e.out.dataurl, e.out.slice)                \* data URL decodes to the same map as its payload
    /\ (DeclErr(e.args.bytes) => e.out.slice.k = "err" /\ ~e.out.is_slice)   \* bare CR rejected on both
    /\ (e.args.valid /\ ~DeclErr(e.args.bytes) /\ (HasHeader(e.args.bytes) => FirstLF(e.args.bytes) # 0)
          => e.out.slice.k = "ok" /\ e.out.is_slice)          \* a header with \n or \r\n is skipped

Judge(e) == CASE e.op = "reader" -> JudgeReader(e)
              [] e.op = "decode" -> JudgeDecode(e)
              [] OTHER -> FALSE
Free(e) == FALSE
Init == l = 1 /\ bad = <<>> /\ free = <<>>
Next == /\ l <= Len(Rec)
        /\ l' = l + 1
        /\ bad' = IF Judge(Rec[l]) THEN bad ELSE Append(bad, Rec[l].i)
        /\ free' = IF Free(Rec[l]) THEN Append(free, Rec[l].i) ELSE free
Spec == Init /\ [][Next]_vars
Report == (l = Len(Rec) + 1) => PrintT("RESULT " \o ToJson([events |-> Len(Rec), bad |-> bad, free |-> free]))
=============================================================================
