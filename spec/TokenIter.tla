----------------------------- MODULE TokenIter -----------------------------
(***************************************************************************)
(* The token iterator of a map (`SourceMap::tokens()`) as a CURSOR MACHINE. *)
(* C04 says "iterating its tokens yields ... and get_token(i) agrees with   *)
(* the i-th iterated token": the iterator is a cursor over the token list,  *)
(* and every way Rust's Iterator protocol lets a caller advance it (next,   *)
(* nth, and the adaptors skip / step_by / last / count built on them) must  *)
(* move that cursor FORWARD from where it stands.                           *)
(*                                                                          *)
(* state: cur = how many tokens have been passed (0 = fresh iterator)       *)
(* step:  [op, n];  stepping ops keep the iterator alive, final ops consume *)
(*        it ("rest", "skip", "step_by", "last", "count").                  *)
(* Outputs are sequences so that every op has a uniform JSON shape:         *)
(*   next / nth / last : <<>> or <<token>>                                  *)
(*   hint              : <<lower, upper>>  (upper = -1: none)               *)
(*   count             : <<n>>                                              *)
(*   rest/skip/step_by : the tokens yielded                                 *)
(***************************************************************************)
EXTENDS Naturals, Integers, Sequences

StepOps == {"next", "nth", "hint"}
FinalOps == {"rest", "skip", "step_by", "last", "count"}

Remaining(toks, cur) == Len(toks) - cur

\* the cursor after a step (final ops exhaust the iterator)
NextCur(toks, cur, st) ==
    CASE st.op = "next" -> IF cur < Len(toks) THEN cur + 1 ELSE cur
      [] st.op = "nth"  -> IF cur + st.n < Len(toks) THEN cur + st.n + 1 ELSE Len(toks)
      [] st.op = "hint" -> cur
      [] OTHER -> Len(toks)

\* every k-th element of s starting with the first
RECURSIVE EveryKth(_, _)
EveryKth(s, k) == IF s = <<>> THEN <<>>
                  ELSE << s[1] >> \o (IF Len(s) <= k THEN <<>> ELSE EveryKth(SubSeq(s, k + 1, Len(s)), k))

Rest(toks, cur) == SubSeq(toks, cur + 1, Len(toks))

\* is `out` what the step may answer with the cursor at cur?
StepOK(toks, cur, st, out) ==
    CASE st.op = "next" -> out = (IF cur < Len(toks) THEN << toks[cur + 1] >> ELSE <<>>)
      [] st.op = "nth"  -> out = (IF cur + st.n < Len(toks) THEN << toks[cur + st.n + 1] >> ELSE <<>>)
      [] st.op = "hint" -> /\ Len(out) = 2
                           /\ out[1] <= Remaining(toks, cur)                 \* Iterator::size_hint contract
                           /\ (out[2] = -1 \/ out[2] >= Remaining(toks, cur))
      [] st.op = "rest" -> out = Rest(toks, cur)
      [] st.op = "skip" -> out = (IF st.n >= Remaining(toks, cur) THEN <<>> ELSE SubSeq(toks, cur + st.n + 1, Len(toks)))
      [] st.op = "step_by" -> out = EveryKth(Rest(toks, cur), st.n)          \* st.n >= 1
      [] st.op = "last" -> out = (IF cur < Len(toks) THEN << toks[Len(toks)] >> ELSE <<>>)
      [] st.op = "count" -> out = << Remaining(toks, cur) >>
      [] OTHER -> FALSE

\* a whole recorded session: steps and their outputs, from a fresh iterator
RECURSIVE SessionOK(_, _, _, _, _)
SessionOK(toks, cur, steps, outs, i) ==
    IF i > Len(steps) THEN TRUE
    ELSE /\ StepOK(toks, cur, steps[i], outs[i])
         /\ SessionOK(toks, NextCur(toks, cur, steps[i]), steps, outs, i + 1)
IterOK(toks, steps, outs) == Len(outs) = Len(steps) /\ SessionOK(toks, 0, steps, outs, 1)

\* what the machine itself answers (used by the bounded model to cross-check StepOK)
Answer(toks, cur, st) ==
    CASE st.op = "next" -> IF cur < Len(toks) THEN << toks[cur + 1] >> ELSE <<>>
      [] st.op = "nth"  -> IF cur + st.n < Len(toks) THEN << toks[cur + st.n + 1] >> ELSE <<>>
      [] st.op = "hint" -> << Remaining(toks, cur), Remaining(toks, cur) >>
      [] st.op = "rest" -> Rest(toks, cur)
      [] st.op = "skip" -> IF st.n >= Remaining(toks, cur) THEN <<>> ELSE SubSeq(toks, cur + st.n + 1, Len(toks))
      [] st.op = "step_by" -> EveryKth(Rest(toks, cur), st.n)
      [] st.op = "last" -> IF cur < Len(toks) THEN << toks[Len(toks)] >> ELSE <<>>
      [] st.op = "count" -> << Remaining(toks, cur) >>
=============================================================================
