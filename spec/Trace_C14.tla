----------------------------- MODULE Trace_C14 -----------------------------
(* C14: scope answers of real Hermes maps against the independent reading   *)
(* of Metro's function-map format in Hermes.tla.                            *)
EXTENDS Hermes, Json, IOUtils
Rec == ndJsonDeserialize(IOEnv.TRACE)
VARIABLES l, bad, free
vars == <<l, bad, free>>
\* the token a bytecode offset on line 0 lands on (tokens are strictly ordered in these documents)
TokenAt(ts, off) == LET c == {i \in DOMAIN ts : PosLe(Pos(ts[i]), <<0, off>>)} IN
                    IF c = {} THEN 0 ELSE CHOOSE i \in c : \A j \in c : j <= i
\* a lookup inside a range token reports the original column advanced by the distance (C07), and the scope
\* is that of the reported position
Shifted(t, off) == IF Rg(t) = 1 /\ Dl(t) = 0 THEN Tok(Dl(t), Dc(t), Src(t), Sl(t), Sc(t) + (off - Dc(t)), Nm(t), Rg(t)) ELSE t
OffsetScope(d, ts, off) == IF TokenAt(ts, off) = 0 THEN <<>> ELSE TokenScope(d, Shifted(ts[TokenAt(ts, off)], off))
Judge(e) ==
    LET d == e.args.doc  o == e.out IN
    /\ e.op = "hermes"
    /\ o.k = "ok"                                           \* an unparsable function map never fails the decoding
    /\ o.p.kind = "hermes"
    /\ o.line1 = <<>>                                       \* offsets exist on line 0 only
    /\ (WellFormedFns(d) /\ StrictlySorted(o.p.toks)) =>
          /\ \A i \in DOMAIN o.p.toks : o.p.scopes[i] = TokenScope(d, o.p.toks[i])
          /\ \A j \in DOMAIN e.args.offsets : o.fnames[j] = OffsetScope(d, o.p.toks, e.args.offsets[j])
    /\ o.scopes2 = o.p.scopes /\ o.fnames2 = o.fnames      \* unchanged by serialising and decoding again
Free(e) == ~(WellFormedFns(e.args.doc) /\ StrictlySorted(e.out.p.toks))
Init == l = 1 /\ bad = <<>> /\ free = <<>>
Next == /\ l <= Len(Rec)
        /\ l' = l + 1
        /\ bad' = IF Judge(Rec[l]) THEN bad ELSE Append(bad, Rec[l].i)
        /\ free' = IF Rec[l].out.k = "ok" /\ Free(Rec[l]) THEN Append(free, Rec[l].i) ELSE free
Spec == Init /\ [][Next]_vars
Report == (l = Len(Rec) + 1) => PrintT("RESULT " \o ToJson([events |-> Len(Rec), bad |-> bad, free |-> free]))
=============================================================================
