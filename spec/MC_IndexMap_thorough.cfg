CONSTANTS
  MaxSecs = 3
  Nested = TRUE
SPECIFICATION Spec
INVARIANTS LookupAndFlattenAgree UnresolvedSectionIsError FlattenedIsOrdered FlattenKeepsAllTokens EmitCase
CHECK_DEADLOCK FALSE
