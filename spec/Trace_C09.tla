----------------------------- MODULE Trace_C09 -----------------------------
(* C09: every recorded rewrite of a real map must be what Rewrite.tla       *)
(* computes from the projection of the input map and the options; for       *)
(* Hermes maps every token must resolve to the same enclosing function.     *)
EXTENDS Rewrite, Json, IOUtils
Rec == ndJsonDeserialize(IOEnv.TRACE)
VARIABLES l, bad, free
vars == <<l, bad, free>>
Judge(e) == /\ e.op \in {"rewrite", "hermes_rewrite"} /\ e.out.k = "ok"
            /\ RewriteOK(e.args.p1, e.args.opts, e.out.p2)
            /\ SameResolution(e.args.p1, e.args.opts, RewriteSpec(e.args.p1, e.args.opts))
            /\ (e.op = "hermes_rewrite" =>
                   /\ e.out.p2.kind = "hermes"
                   /\ (StrictlySorted(e.args.p1.toks) => e.out.p2.scopes = e.args.p1.scopes))
Free(e) == FALSE
Init == l = 1 /\ bad = <<>> /\ free = <<>>
Next == /\ l <= Len(Rec)
        /\ l' = l + 1
        /\ bad' = IF Judge(Rec[l]) THEN bad ELSE Append(bad, Rec[l].i)
        /\ free' = IF Free(Rec[l]) THEN Append(free, Rec[l].i) ELSE free
Spec == Init /\ [][Next]_vars
Report == (l = Len(Rec) + 1) => PrintT("RESULT " \o ToJson([events |-> Len(Rec), bad |-> bad, free |-> free]))
=============================================================================
