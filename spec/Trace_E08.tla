----------------------------- MODULE Trace_E08 -----------------------------
(* E08: every recorded access to a real file RAM bundle in a scratch directory agrees with FileBundle.tla *)
EXTENDS FileBundle, Json, IOUtils
Rec == ndJsonDeserialize(IOEnv.TRACE)
VARIABLES l, bad, free
vars == <<l, bad, free>>
Judge(e) ==
    /\ e.op = "filebundle" /\ e.out.k \in {"ok", "err"}
    /\ LET d == e.args.d  o == e.out IN
       /\ o.is = IsFileBundle(d)                                   \* recognition
       /\ IF ~ParseOK(d) THEN o.k = "err"                          \* wrong layout / marker / a file that is not <id>.js
          ELSE /\ o.k = "ok"
               /\ o.count = Count(d)
               /\ o.startup = Startup(d)
               /\ Len(o.gets) = Len(e.args.ids)
               /\ \A i \in DOMAIN e.args.ids : Ambiguous(d, e.args.ids[i]) \/ o.gets[i] = Module(d, e.args.ids[i])
               \* the iterator: the present ids in increasing order
               /\ o.iter = SetToSortSeq({x \in Ids(d) : x < 64}, <)
Free(e) == FALSE
Init == l = 1 /\ bad = <<>> /\ free = <<>>
Next == /\ l <= Len(Rec)
        /\ l' = l + 1
        /\ bad' = IF Judge(Rec[l]) THEN bad ELSE Append(bad, Rec[l].i)
        /\ free' = IF Free(Rec[l]) THEN Append(free, Rec[l].i) ELSE free
Spec == Init /\ [][Next]_vars
Report == (l = Len(Rec) + 1) => PrintT("RESULT " \o ToJson([events |-> Len(Rec), bad |-> bad, free |-> free]))
=============================================================================
