---------------------------- MODULE HeaderReader ----------------------------
(***************************************************************************)
(* XSSI junk-header stripping (C12): the streaming reader, whose state       *)
(* lives across read calls and which sees the input in arbitrary chunks,    *)
(* the slice function, and the declarative meaning both must have.          *)
(* Bytes are numbers 0..255.                                                 *)
(***************************************************************************)
EXTENDS Naturals, Integers, Sequences, SequencesExt, FiniteSets

CR == 13
LF == 10
IsJunk(b) == b \in {41, 93, 125, 39}          \*  )  ]  }  '

(* ----------------------------- declarative ----------------------------- *)
FirstLF(s) == LET ix == {i \in 1..Len(s) : s[i] = LF} IN
              IF ix = {} THEN 0 ELSE CHOOSE i \in ix : \A j \in ix : i <= j
HasHeader(s) == s # <<>> /\ IsJunk(s[1])
\* a CR inside the header (before the first LF) must be followed directly by LF;
\* a CR that is the very last byte of the input is simply an unfinished header
HeaderEnd(s) == IF FirstLF(s) = 0 THEN Len(s) ELSE FirstLF(s)
BadCR(s) == \E p \in 1..HeaderEnd(s) : s[p] = CR /\ p + 1 <= Len(s) /\ s[p + 1] # LF
DeclErr(s) == HasHeader(s) /\ BadCR(s)
\* what is delivered to the JSON parser by the reader / kept by the slice function
DeclPayload(s) == IF ~HasHeader(s) THEN s
                  ELSE IF FirstLF(s) = 0 THEN <<>> ELSE SubSeq(s, FirstLF(s) + 1, Len(s))
DeclSlice(s) == IF ~HasHeader(s) THEN s
                ELSE IF FirstLF(s) = 0 THEN <<>> ELSE SubSeq(s, FirstLF(s), Len(s))

(* ---------------------------- reader machine --------------------------- *)
\* one step = one read of the inner reader returning `chunk` (possibly several per outer call)
RInit == [state |-> "Undecided", out |-> <<>>, err |-> FALSE]

\* per byte: [state, from] where from = index in the chunk from which bytes are delivered (0 = none yet)
ByteStep(a, i, chunk) ==
    LET b == chunk[i] IN
    IF a.err \/ a.from # 0 THEN a
    ELSE CASE a.state = "Undecided" ->
                 IF IsJunk(b) THEN [a EXCEPT !.state = "Junk"]
                 ELSE [a EXCEPT !.state = "Past", !.from = 1]              \* no header: the whole chunk is data
           [] a.state = "Junk" ->
                 IF b = CR THEN [a EXCEPT !.state = "AwaitNL"]
                 ELSE IF b = LF THEN [a EXCEPT !.state = "Past"]
                 ELSE a
           [] a.state = "AwaitNL" ->
                 IF b = LF THEN [a EXCEPT !.state = "Past"] ELSE [a EXCEPT !.err = TRUE]
           [] a.state = "Past" -> [a EXCEPT !.from = i]                    \* first byte after the header
           [] OTHER -> a

ChunkStep(s, chunk) ==
    IF s.err \/ chunk = <<>> THEN s
    ELSE LET a == FoldLeft(LAMBDA acc, i : ByteStep(acc, i, chunk),
                           [state |-> s.state, from |-> 0, err |-> FALSE],
                           [i \in 1..Len(chunk) |-> i]) IN
         [state |-> a.state, err |-> a.err,
          out |-> IF a.from = 0 THEN s.out ELSE s.out \o SubSeq(chunk, a.from, Len(chunk))]

RECURSIVE Cut(_, _)
Cut(s, sizes) == IF sizes = <<>> \/ s = <<>> THEN <<>>
                 ELSE LET k == IF sizes[1] > Len(s) THEN Len(s) ELSE sizes[1] IN
                      <<SubSeq(s, 1, k)>> \o Cut(SubSeq(s, k + 1, Len(s)), Tail(sizes))
RunReader(input, sizes) == FoldLeft(ChunkStep, RInit, Cut(input, sizes))

(* ----------------------------- slice function -------------------------- *)
SliceStep(a, i, s) ==
    LET b == s[i] IN
    IF a.done THEN a
    ELSE IF a.need /\ b # LF THEN [a EXCEPT !.done = TRUE, !.err = TRUE]
    ELSE IF IsJunk(b) THEN a
    ELSE IF b = CR THEN [a EXCEPT !.need = TRUE]
    ELSE IF b = LF THEN [a EXCEPT !.done = TRUE, !.at = i]
    ELSE a
SliceStrip(s) ==
    IF ~HasHeader(s) THEN [err |-> FALSE, rest |-> s]
    ELSE LET a == FoldLeft(LAMBDA acc, i : SliceStep(acc, i, s),
                           [done |-> FALSE, err |-> FALSE, need |-> FALSE, at |-> 0], [i \in 1..Len(s) |-> i]) IN
         [err |-> a.err, rest |-> IF a.err THEN <<>> ELSE IF a.at = 0 THEN <<>> ELSE SubSeq(s, a.at, Len(s))]
=============================================================================
