CONSTANTS
  MaxBase = 2
  MaxRef = 2
SPECIFICATION Spec
INVARIANTS NothingForDataOrRelativeBase NoDotSegments NeverEmptyPath AbsoluteIgnoresBase Idempotent ReparseStable PathAgrees EmitCase
CHECK_DEADLOCK FALSE
