------------------------------ MODULE Detector ------------------------------
(***************************************************************************)
(* Reference discovery in generated files and data URLs (C18).  A file is a *)
(* sequence of code points; lines end at LF, one CR before it is dropped.   *)
(***************************************************************************)
EXTENDS MapModel

Str(s) == s     \* strings of this module are written as code-point tuples
REF    == <<47, 47, 35, 32, 115, 111, 117, 114, 99, 101, 77, 97, 112, 112, 105, 110, 103, 85, 82, 76, 61>>   \* "//# sourceMappingURL="
LEGACY == <<47, 47, 64, 32, 115, 111, 117, 114, 99, 101, 77, 97, 112, 112, 105, 110, 103, 85, 82, 76, 61>>   \* "//@ sourceMappingURL="
WS == {9, 10, 11, 12, 13, 32, 133, 160, 5760, 8232, 8233, 8239, 8287, 12288} \cup (8192..8202)

RECURSIVE TrimL(_)
TrimL(s) == IF s # <<>> /\ s[1] \in WS THEN TrimL(Tail(s)) ELSE s
RECURSIVE TrimR(_)
TrimR(s) == IF s # <<>> /\ s[Len(s)] \in WS THEN TrimR(SubSeq(s, 1, Len(s) - 1)) ELSE s
TrimWS(s) == TrimR(TrimL(s))

FileLines(f) == LET raw == SplitOn(f, 10) IN
                [i \in DOMAIN raw |-> IF raw[i] # <<>> /\ raw[i][Len(raw[i])] = 13 THEN SubSeq(raw[i], 1, Len(raw[i]) - 1) ELSE raw[i]]
IsRefLine(ln) == HasPrefix(ln, REF) \/ HasPrefix(ln, LEGACY)
RefOf(ln) == [legacy |-> HasPrefix(ln, LEGACY), url |-> TrimWS(SubSeq(ln, 22, Len(ln)))]

\* declarative: the first line that begins with one of the two comment forms
Locate(f) == LET ls == FileLines(f)  hits == {i \in DOMAIN ls : IsRefLine(ls[i])} IN
             IF hits = {} THEN <<>> ELSE << RefOf(ls[CHOOSE i \in hits : \A j \in hits : i <= j]) >>
\* machine: scan line by line, stop at the first hit
ScanStep(s, ln) == IF s # <<>> THEN s ELSE IF IsRefLine(ln) THEN << RefOf(ln) >> ELSE <<>>
LocateM(f) == FoldLeft(ScanStep, <<>>, FileLines(f))

\* data URLs: the preamble the writer emits must be one the reader accepts
WRITER_PREAMBLE == "data:application/json;charset=utf-8;base64,"
ACCEPTED_PREAMBLES == {"data:application/json;base64,", "data:application/json;charset=utf-8;base64,"}
=============================================================================
