-------------------------------- MODULE Doc --------------------------------
(***************************************************************************)
(* The JSON envelope of a source map document, abstractly: which keys are   *)
(* present, in which order, with which values; and what a decoder must      *)
(* report for it.  Optional values are <<>> / <<v>>.  Sources and the       *)
(* source root are sequences of code points (the joining rule looks inside  *)
(* them); names, contents, file, ids are opaque strings.                    *)
(***************************************************************************)
EXTENDS Mappings

Has(x) == x # <<>>
Get(x) == x[1]

Kind(d) == IF Has(d.sections) THEN "index" ELSE IF Has(d.xfs) THEN "hermes" ELSE "regular"

SLASH == 47
HTTP  == <<104, 116, 116, 112, 58>>          \* "http:"
HTTPS == <<104, 116, 116, 112, 115, 58>>     \* "https:"
HasPrefix(s, p) == Len(s) >= Len(p) /\ SubSeq(s, 1, Len(p)) = p
IsAbs(s) == s # <<>> /\ (s[1] = SLASH \/ HasPrefix(s, HTTP) \/ HasPrefix(s, HTTPS))
StripSlash(r) == IF r # <<>> /\ r[Len(r)] = SLASH THEN SubSeq(r, 1, Len(r) - 1) ELSE r
\* the documented rule: a non-empty root is joined to every source that is not absolute
Join(root, s) == IF ~Has(root) \/ Get(root) = <<>> \/ IsAbs(s) THEN s
                 ELSE StripSlash(Get(root)) \o <<SLASH>> \o s

RawSources(d) == IF Has(d.sources)
                 THEN [i \in 1..Len(Get(d.sources)) |->
                         IF Has(Get(d.sources)[i]) THEN Get(Get(d.sources)[i]) ELSE <<>>]   \* null reads as ""
                 ELSE <<>>
ExpSources(d) == [i \in DOMAIN RawSources(d) |-> Join(d.root, RawSources(d)[i])]
\* numeric names read as their decimal text: small integers are logged as numbers (n), integers beyond 32 bits and
\* fractions as the literal written in the document (lit; the drivers only use literals that are already in the
\* shortest form, which is the form a JSON number prints in)
\* (an entry that is neither a string nor a number -- null, true, an object: "raw" -- reads as the empty name, as found)
NameText(n) == IF "s" \in DOMAIN n THEN n.s ELSE IF "lit" \in DOMAIN n THEN n.lit ELSE IF "raw" \in DOMAIN n THEN "" ELSE ToString(n.n)
ExpNames(d) == IF Has(d.names) THEN [i \in 1..Len(Get(d.names)) |-> NameText(Get(d.names)[i])] ELSE <<>>
ExpDebugId(d) == IF Has(d.debug_id) THEN d.debug_id ELSE d.debugId                 \* debug_id wins over debugId
ExpContents(d) == [i \in DOMAIN RawSources(d) |->
                     IF Has(d.contents) /\ i <= Len(Get(d.contents)) THEN Get(d.contents)[i] ELSE <<>>]
ExpIgnore(d) == IF Has(d.ignore) THEN {Get(d.ignore)[i] : i \in DOMAIN Get(d.ignore)} ELSE {}
SeqRange(s) == {s[i] : i \in DOMAIN s}

RangeOf(d) == IF Has(d.range) THEN RangeLines(Get(d.range)) ELSE <<>>
ExpTokens(d) == DecodeR(IF Has(d.mappings) THEN Get(d.mappings) ELSE <<>>,
                        Len(RawSources(d)), Len(ExpNames(d)), RangeOf(d))

StrictlySorted(ts) == \A i \in 1..(Len(ts) - 1) : PosLt(Pos(ts[i]), Pos(ts[i + 1]))
Count(s, x) == Cardinality({j \in DOMAIN s : s[j] = x})
SameBag(a, b) == Len(a) = Len(b) /\ \A i \in DOMAIN a : Count(a, a[i]) = Count(b, a[i])
\* decoded tokens come out ordered by generated position; order among tokens sharing a
\* position is not promised (unstable sort)
SameTokens(obs, exp) == IF StrictlySorted(exp) THEN obs = exp
                        ELSE Sorted(obs) /\ SameBag(obs, exp)

\* "ok" | "err" | "free" (free: the format does not determine the outcome, or it is
\* beyond TLC's integers; only "no panic" is demanded)
RECURSIVE DocStatus(_)
DocStatus(d) ==
    IF Kind(d) = "index" THEN
        LET ss == Get(d.sections)
            st == [i \in DOMAIN ss |-> IF Has(ss[i].map) THEN DocStatus(Get(ss[i].map)) ELSE "ok"] IN
        IF \E i \in DOMAIN ss : st[i] = "err" THEN "err"
        ELSE IF \E i \in DOMAIN ss : st[i] = "free" THEN "free" ELSE "ok"
    ELSE LET r == ExpTokens(d) IN
         IF r.k = "err" THEN "err" ELSE IF r.k = "ok" THEN "ok" ELSE "free"

MatchFlat(d, o) ==
    /\ SameTokens(o.toks, ExpTokens(d).toks)
    /\ o.sources = ExpSources(d)
    /\ o.names = ExpNames(d)
    /\ o.contents = ExpContents(d)
    /\ o.file = (IF Has(d.file) /\ "s" \in DOMAIN Get(d.file) THEN <<Get(d.file).s>> ELSE o.file)
    /\ o.root = d.root
    /\ o.debug_id = ExpDebugId(d)
    /\ SeqRange(o.ignore) = ExpIgnore(d)

\* does the observed projection o match document d (whose status is "ok")?
RECURSIVE MatchDoc(_, _)
MatchDoc(d, o) ==
    /\ o.kind = Kind(d)
    /\ IF Kind(d) = "index" THEN
          LET ss == Get(d.sections) IN
          /\ Len(o.sections) = Len(ss)
          /\ \A i \in DOMAIN ss :
                /\ o.sections[i].off = ss[i].off
                /\ o.sections[i].url = ss[i].url
                /\ Has(o.sections[i].map) = Has(ss[i].map)
                /\ (Has(ss[i].map) => MatchDoc(Get(ss[i].map), Get(o.sections[i].map)))
       ELSE MatchFlat(d, o)

JudgeDecode(d, out) ==
    LET s == DocStatus(d) IN
    IF s = "err" THEN out.k = "err"
    ELSE IF s = "free" THEN out.k \in {"ok", "err"}
    ELSE out.k = "ok" /\ MatchDoc(d, out)
=============================================================================
