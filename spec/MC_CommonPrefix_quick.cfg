CONSTANTS
  MaxSrc = 3
SPECIFICATION Spec
INVARIANTS IsPrefixOfAll OnComponentBoundary SplitRejoins DeviationNeedsTotalMismatch EmitCase
CHECK_DEADLOCK FALSE
