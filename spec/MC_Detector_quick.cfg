CONSTANTS
  MaxLines = 3
SPECIFICATION Spec
INVARIANTS ScanIsDeclarative UrlIsTrimmed PreambleAccepted EmitCase
CHECK_DEADLOCK FALSE
