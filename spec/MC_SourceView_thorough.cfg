CONSTANTS
  MaxText = 4
  Depth = 3
  Slices = FALSE
SPECIFICATION Spec
INVARIANTS AnswerIsDeclarative IndexIsConsistent LinesRejoin EmitCase
CHECK_DEADLOCK FALSE
