CONSTANTS
  MaxToks = 4
  Lines = {0,2}
  Cols = {0,2}
  WithRange = TRUE
SPECIFICATION Spec
INVARIANTS FoldIsMachine RoundTrip RoundTripDecl Shape RangeAbsentIffNoRange EmitCase
CHECK_DEADLOCK FALSE
