CONSTANTS
  MaxToks = 4
  Lines = {0,1,2}
  Cols = {0,2,3}
  WithRange = TRUE
SPECIFICATION Spec
INVARIANTS AlgorithmRefinesLookup AlgorithmMatchesAbstract WindowInvariant TokensOrdered EmitCase
CHECK_DEADLOCK FALSE
