CONSTANTS
  MaxSlots = 2
  Startups <- St_quick
SPECIFICATION Spec
INVARIANTS WellFormedRoundTrip NeverOutside RecognitionIsHeaderAndMagic TruncatedHeaderRefused EmitCase
CHECK_DEADLOCK FALSE
