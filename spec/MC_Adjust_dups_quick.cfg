CONSTANTS
  MaxO = 2
  MaxA = 2
  Lines = {0,1}
  Cols = {0,2}
  Dups = TRUE
SPECIFICATION Spec
INVARIANTS SweepIsPinnedDeviation NoDupsNoDeviation EmitCase
CHECK_DEADLOCK FALSE
