CONSTANTS
  MaxToks = 4
  Lines = {0,1,3}
  Cols = {0,2}
  WithRange = FALSE
SPECIFICATION Spec
INVARIANTS FoldIsMachine RoundTrip RoundTripDecl Shape RangeAbsentIffNoRange EmitCase
CHECK_DEADLOCK FALSE
