CONSTANTS
  Wide = TRUE
  MaxFrags = 3
SPECIFICATION Spec
INVARIANTS WalkFindsFirstPair NonIdentifierNeverResolves EmitCase
CHECK_DEADLOCK FALSE
