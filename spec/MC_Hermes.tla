------------------------------ MODULE MC_Hermes ------------------------------
(* Function-map texts from a small alphabet of segments (1, 2, 3 fields,    *)
(* name index pushed out of range, unparsable), ',' and ';'; the decoder    *)
(* runs one symbol per step.                                                *)
EXTENDS Hermes, Json
CONSTANTS MaxSegs
Segs == { <<0>>, <<4>>, <<4, 2>>, <<6, 0, 2>>, <<2, 4, 2>>, <<4, 3>>, <<32>>, <<2, 133>> }
Seps == { <<COMMA>>, <<SEMI>>, <<SEMI, SEMI>> }
VARIABLES phase, text, n, pos, st
vars == <<phase, text, n, pos, st>>
Init == phase = "build" /\ text = <<>> /\ n = 0 /\ pos = 0 /\ st = FInit
AddSeg == /\ phase = "build" /\ n < MaxSegs
          /\ \E sg \in Segs, sp \in Seps : text' = text \o (IF n > 0 THEN sp ELSE <<>>) \o sg
          /\ n' = n + 1 /\ UNCHANGED <<phase, pos, st>>
Start == phase = "build" /\ phase' = "run" /\ UNCHANGED <<text, n, pos, st>>
Sym == /\ phase = "run" /\ pos < Len(text)
       /\ st' = FStep(st, text[pos + 1]) /\ pos' = pos + 1 /\ UNCHANGED <<phase, text, n>>
Next == AddSeg \/ Start \/ Sym
Spec == Init /\ [][Next]_vars
Done == phase = "run" /\ pos = Len(text)
Result == LET s == FClose(st) IN IF s.bad THEN <<>> ELSE <<s.out>>
FoldIsMachine == Done => Result = DecodeFn(text)
\* declaratively: an unterminated value or a foreign symbol anywhere disables the whole function map
UnparsableDisables ==
    (Done /\ ((\E i \in DOMAIN text : text[i] >= 100)
              \/ (\E g \in DOMAIN NonEmptySegs(text) : DeclErr(NonEmptySegs(text)[g].ds))))
        => Result = <<>>
\* lines never decrease when deltas are non-negative; one entry per non-empty segment
EntryPerSegment == (Done /\ Result # <<>>) => Len(Result[1]) = Len(NonEmptySegs(text))
EmitCase == Done => PrintT("CASE " \o ToJson([op |-> "hermes", fn |-> text]))
=============================================================================
