CONSTANTS
  FullLen = 3
  RedLen = 5
  SmallBits = 12
SPECIFICATION Spec
INVARIANTS MachineAgrees CanonicalFixpoint ValuesWellFormed RoundTrip SmallInts WordArithmetic EmitCase
CHECK_DEADLOCK FALSE
