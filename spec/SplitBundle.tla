----------------------------- MODULE SplitBundle -----------------------------
(***************************************************************************)
(* Extension E02 (beyond the listed properties): split_ram_bundle -- cutting *)
(* the flattened map of an index map into one map per RAM-bundle module.    *)
(* Composes IndexMap (flatten), MapExt (seek), SourceView (lines, UTF-16    *)
(* lengths).  Specified AS FOUND, with two named deviations:                *)
(*  SplitSkipsFirstToken  the iterator is positioned with seek(start, 0);   *)
(*      when no token sits exactly at (start, 0) the seek deviation of      *)
(*      MapExt applies and the module's first token is skipped; when one    *)
(*      does, that token itself is skipped (seek continues AFTER it).       *)
(*  SplitStopsAtWideColumn  the loop stops at the first token whose column  *)
(*      is >= the UTF-16 length of the module's LAST line, whatever line    *)
(*      the token is on.                                                    *)
(***************************************************************************)
EXTENDS MapExt, SourceView

\* tokens of flattened map `flat` that end up in the module starting at line `start` with text `text`
\* (text: code points).  <<>> with ok = FALSE when the seek finds nothing.
SplitModule(flat, start, text) ==
    LET q == <<start, 0>> IN
    IF ~SeekFound(flat, q) THEN [ok |-> FALSE, toks |-> <<>>]
    ELSE LET first == Reported(flat, q) + 2                          \* 1-based index of the first token looked at
             nlines == Len(Lines(text))
             ending == start + nlines
             lastlen == Units(Lines(text)[nlines])
             stops == {i \in first..Len(flat) : Dl(flat[i]) >= ending \/ Dc(flat[i]) >= lastlen}
             last == IF stops = {} THEN Len(flat) ELSE (CHOOSE i \in stops : \A j \in stops : i <= j) - 1
         IN [ok |-> TRUE,
             toks |-> [k \in 1..(IF last >= first THEN last - first + 1 ELSE 0) |->
                          LET t == flat[first + k - 1] IN
                          Tok(Dl(t) - start, Dc(t), Src(t), Sl(t), Sc(t), Nm(t), 0)]]
\* what a reader would expect: every token of the module's lines
ExpectedModule(flat, start, text) ==
    LET ending == start + Len(Lines(text)) IN
    SelectSeq(flat, LAMBDA t : Dl(t) >= start /\ Dl(t) < ending)
SplitDeviates(flat, start, text) ==
    LET s == SplitModule(flat, start, text) IN
    ~s.ok \/ Len(s.toks) # Len(ExpectedModule(flat, start, text))
=============================================================================
