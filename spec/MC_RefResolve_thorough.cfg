CONSTANTS
  MaxBase = 3
  MaxRef = 3
SPECIFICATION Spec
INVARIANTS NothingForDataOrRelativeBase NoDotSegments NeverEmptyPath AbsoluteIgnoresBase Idempotent ReparseStable PathAgrees EmitCase
CHECK_DEADLOCK FALSE
