----------------------------- MODULE Trace_C08 -----------------------------
(* C08: flatten() and lookup_token() of real index maps against IndexMap.tla *)
(* (computed from the observed projections of the sections).                *)
EXTENDS IndexMap, Json, IOUtils
Rec == ndJsonDeserialize(IOEnv.TRACE)
VARIABLES l, bad, free
vars == <<l, bad, free>>
FlatMatches(m, o) ==
    /\ (IF StrictlySorted(m.toks) THEN o.toks = m.toks ELSE Sorted(o.toks) /\ SameBag(o.toks, m.toks))
    /\ o.sources = m.sources /\ o.names = m.names /\ o.contents = m.contents
    /\ o.ignore = m.ignore /\ o.file = m.file
Judge(e) ==
    LET p == e.args.p  o == e.out  f == FlattenIdx(p) IN
    /\ e.op = "index" /\ o.k = "ok"
    /\ (o.flat.k = "ok") = f.ok                                   \* an unresolved section is an error
    /\ (f.ok => FlatMatches(f.m, o.flat.p))
    /\ WellFormedIdx(p) =>
          \A j \in DOMAIN e.args.qs :
              /\ o.idx[j] = IdxLookup(p, e.args.qs[j])
              /\ ((f.ok /\ o.idx[j] # <<>>) => o.flatres[j] = o.idx[j])   \* the flattened map finds the same original location
Free(e) == ~WellFormedIdx(e.args.p)
Init == l = 1 /\ bad = <<>> /\ free = <<>>
Next == /\ l <= Len(Rec)
        /\ l' = l + 1
        /\ bad' = IF Judge(Rec[l]) THEN bad ELSE Append(bad, Rec[l].i)
        /\ free' = IF Rec[l].out.k = "ok" /\ Free(Rec[l]) THEN Append(free, Rec[l].i) ELSE free
Spec == Init /\ [][Next]_vars
Report == (l = Len(Rec) + 1) => PrintT("RESULT " \o ToJson([events |-> Len(Rec), bad |-> bad, free |-> free]))
=============================================================================
