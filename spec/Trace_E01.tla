----------------------------- MODULE Trace_E01 -----------------------------
(* Extension E01 (beyond the listed properties): seek/next, map setters and *)
(* their persistence, token Eq/Ord, RAM-bundle extras of index maps, judged *)
(* against MapExt.tla, which specifies them AS FOUND.                       *)
EXTENDS MapExt, Json, IOUtils
Rec == ndJsonDeserialize(IOEnv.TRACE)
VARIABLES l, bad, free
vars == <<l, bad, free>>
JudgeSeek(e) == /\ e.out.k = "ok" /\ Len(e.out.res) = Len(e.args.qs)
                /\ \A j \in DOMAIN e.args.qs :
                      /\ e.out.res[j].found = SeekFound(e.args.toks, e.args.qs[j])
                      /\ e.out.res[j].next = NextAfterSeek(e.args.toks, e.args.qs[j])
JudgeSetters(e) == /\ e.out.k = "ok"
                   /\ RemoveNamesOK(e.args.p, e.out.removed) /\ RemoveNamesPersisted(e.out.removed2)
                   /\ SetFileOK(e.args.file, e.out.set, e.out.set2)
                   /\ SetDebugIdOK(e.args.debug, e.out.set, e.out.set2)
JudgeOrd(e) == /\ e.out.k = "ok"
               /\ EqOK(e.args.a, e.args.b, e.out.eq) /\ OrdConsistent(e.args.a, e.args.b, e.out.cmp)
               /\ (e.out.cmp = 0) = (e.out.rcmp = 0) /\ (e.out.cmp = -1) = (e.out.rcmp = 1)     \* antisymmetry
JudgeExtras(e) == e.out.k = "ok" /\ ExtrasDecoded(e.args.doc, e.out.o) /\ ExtrasAfterCycle(e.out.o2)
JudgeRender(e) == /\ e.out.k = "ok"
                  \* the id accessors report the raw fields; has_source / has_name say whether the id names something
                  \* DEVIATION NameIdSurvivesRemoveNames (as found): after remove_names() get_name_id() keeps reporting the id the
                  \* name had, while has_name() / get_name() report none (raw[6] is the name as get_name() sees it)
                  /\ e.out.ids = e.args.a.rawids /\ e.args.a.rawids[1] = e.args.a.raw[3]
                  /\ (e.args.a.raw[6] # -1 => e.args.a.rawids[2] = e.args.a.raw[6])
                  /\ e.out.has = <<e.args.a.raw[3] # -1, e.args.a.nm # <<>> >>
                  /\ (e.args.a.nm # <<>>) = (e.args.a.raw[6] # -1)
                  /\ (RenderJudged(e.args.a) => /\ e.out.display = Render(e.args.a)
                                                /\ e.out.alt = RenderAlt(e.args.a)
                                                /\ e.out.debug = RenderDebug(e.args.a))
Judge(e) == CASE e.op = "seek" -> JudgeSeek(e)
              [] e.op = "render" -> JudgeRender(e)
              [] e.op = "setters" -> JudgeSetters(e)
              [] e.op = "ord" -> JudgeOrd(e)
              [] e.op = "extras" -> JudgeExtras(e)
              [] OTHER -> FALSE
\* events on which the as-found behaviour differs from the expected one (reported, not rejected)
Free(e) == e.op = "seek" /\ e.out.k = "ok" /\ \E j \in DOMAIN e.args.qs : SeekDeviates(e.args.toks, e.args.qs[j])
Init == l = 1 /\ bad = <<>> /\ free = <<>>
Next == /\ l <= Len(Rec)
        /\ l' = l + 1
        /\ bad' = IF Judge(Rec[l]) THEN bad ELSE Append(bad, Rec[l].i)
        /\ free' = IF Free(Rec[l]) THEN Append(free, Rec[l].i) ELSE free
Spec == Init /\ [][Next]_vars
Report == (l = Len(Rec) + 1) => PrintT("RESULT " \o ToJson([events |-> Len(Rec), bad |-> bad, free |-> free]))
=============================================================================
