CONSTANTS
  MaxFaults = 1
  Depth = 3
SPECIFICATION Spec
INVARIANTS RedecodeOnlyAfterSerialize FailedIsFinal PredictionRespected EmitCase
VIEW View
CHECK_DEADLOCK FALSE
