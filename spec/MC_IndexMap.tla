----------------------------- MODULE MC_IndexMap -----------------------------
(* Every small well-formed index (1..MaxSecs sections at increasing offsets, *)
(* empty sections, sections starting mid-line, shared source names, one      *)
(* nested index) x every query of a grid: whenever the index lookup finds a  *)
(* token, the flattened map finds the same original location there.          *)
EXTENDS IndexMap, Json
CONSTANTS MaxSecs, Nested
Offs == { <<0, 0>>, <<0, 4>>, <<1, 2>>, <<2, 0>> }
SA == <<97>>
SB == <<98>>
\* section maps: 0..2 tokens on a local grid, sources from a shared pool, contents, ignore list, a range token
Flat(toks, srcs, conts, ign) == [kind |-> "regular", toks |-> toks, sources |-> srcs, names |-> <<"n">>,
                                 contents |-> conts, ignore |-> ign, file |-> <<>>]
SecMaps == { Flat(<<>>, <<>>, <<>>, <<>>),
             Flat(<<Tok(0, 0, 0, 1, 1, -1, 0)>>, <<SA>>, << <<"ca">> >>, <<>>),
             Flat(<<Tok(0, 1, 0, 2, 2, 0, 0), Tok(1, 0, 1, 3, 3, -1, 0)>>, <<SB, SA>>, << <<>>, <<"ca2">> >>, <<1>>),
             Flat(<<Tok(0, 0, -1, 0, 0, -1, 0), Tok(0, 2, 0, 4, 4, -1, 1)>>, <<SB>>, << <<"cb">> >>, <<0>>),
             Flat(<<Tok(0, 0, 0, 5, 5, -1, 0)>>, <<SA>>, << <<"">> >>, <<>>) }      \* present but EMPTY contents
NestedMaps == IF Nested THEN { [kind |-> "index", file |-> <<>>, sections |-> << [off |-> <<0, 1>>, url |-> <<>>, map |-> <<m>>] >>] : m \in SecMaps }
              ELSE {}
Queries == {<<l, c>> : l \in 0..3, c \in 0..6}
VARIABLES phase, idx, q
vars == <<phase, idx, q>>
Init == phase = "build" /\ idx = [kind |-> "index", file |-> <<"bundle.js">>, sections |-> <<>>] /\ q = <<0, 0>>
AddSection == /\ phase = "build" /\ Len(idx.sections) < MaxSecs
              /\ \E o \in Offs, m \in {<<>>} \cup {<<x>> : x \in SecMaps \cup NestedMaps} :
                    LET idx2 == [idx EXCEPT !.sections = Append(@, [off |-> o, url |-> <<>>, map |-> m])] IN
                    WellFormedIdx(idx2) /\ idx' = idx2
              /\ UNCHANGED <<phase, q>>
Ask == /\ phase = "build" /\ Len(idx.sections) >= 1
       /\ phase' = "ask" /\ \E qq \in Queries : q' = qq
       /\ UNCHANGED idx
Next == AddSection \/ Ask
Spec == Init /\ [][Next]_vars
LookupAndFlattenAgree == phase = "ask" => Agreement(idx, q)
UnresolvedSectionIsError == phase = "ask" => (FlattenIdx(idx).ok <=> \A i \in DOMAIN idx.sections : idx.sections[i].map # <<>>)
FlattenedIsOrdered == phase = "ask" => (FlattenIdx(idx).ok => Sorted(FlattenIdx(idx).m.toks))
FlattenKeepsAllTokens == phase = "ask" => (FlattenIdx(idx).ok =>
    Len(FlattenIdx(idx).m.toks) = FoldLeft(LAMBDA a, s : a + (IF s.map[1].kind = "index" THEN Len(FlattenIdx(s.map[1]).m.toks) ELSE Len(s.map[1].toks)), 0, idx.sections))
EmitCase == (phase = "ask" /\ q = <<0, 0>>) => PrintT("CASE " \o ToJson([op |-> "index", idx |-> idx]))
=============================================================================
