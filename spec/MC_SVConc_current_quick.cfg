CONSTANTS
  Threads = {1,2}
  Algo = "single"
  Texts <- T_small
  CallPool <- Pool_small
  MaxCalls = 2
SPECIFICATION Spec
INVARIANTS Safe LockDiscipline Progress IndexOK HalfUpdatedOnlyUnderLock
VIEW View
CHECK_DEADLOCK FALSE
