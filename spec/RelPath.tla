------------------------------ MODULE RelPath ------------------------------
(***************************************************************************)
(* make_relative_path (C19).  A path is a sequence of component ids; UP is  *)
(* "..", DOT is ".".  The RELATION the property states: resolving the       *)
(* result against the directory of the base file gives the target.  The     *)
(* algorithm (common-prefix scan, one UP per remaining directory level,     *)
(* then the rest of the target) is a small state machine; MC_RelPath checks *)
(* that it satisfies the relation for every pair of bounded paths.          *)
(***************************************************************************)
EXTENDS Naturals, Integers, Sequences, SequencesExt, FiniteSets

UP == -1
DOT == -2
UNKNOWN == -9      \* a component of the result that is not a pool name (e.g. two names glued together)

Dir(base) == IF base = <<>> THEN <<>> ELSE SubSeq(base, 1, Len(base) - 1)

ResolveStep(stack, c) ==
    IF c = UP THEN (IF stack = <<>> THEN <<UNKNOWN>> ELSE SubSeq(stack, 1, Len(stack) - 1))
    ELSE IF c = DOT THEN stack
    ELSE Append(stack, c)
Resolve(dir, rel) == FoldLeft(ResolveStep, dir, rel)

\* the property, as a relation between arguments and result
RelOK(base, target, out) ==
    /\ Resolve(Dir(base), out) = target
    /\ (out = <<DOT>>) <=> (target = Dir(base))
    /\ out # <<>>

\* --- the algorithm, step by step ---
\* state: [p: matched prefix length, phase, ups: emitted UPs, out]
AInit == [p |-> 0, phase |-> "scan", out |-> <<>>]
AStep(s, base, target) ==
    LET d == Dir(base) IN
    CASE s.phase = "scan" ->
            IF s.p < Len(d) /\ s.p < Len(target) /\ d[s.p + 1] = target[s.p + 1]
            THEN [s EXCEPT !.p = s.p + 1]
            ELSE [s EXCEPT !.phase = "up"]
      [] s.phase = "up" ->
            IF Len(s.out) < Len(d) - s.p THEN [s EXCEPT !.out = Append(s.out, UP)]
            ELSE [s EXCEPT !.phase = "rest"]
      [] s.phase = "rest" ->
            [s EXCEPT !.out = IF s.out \o SubSeq(target, s.p + 1, Len(target)) = <<>> THEN <<DOT>>
                              ELSE s.out \o SubSeq(target, s.p + 1, Len(target)),
                      !.phase = "done"]
      [] OTHER -> s
=============================================================================
