------------------------------ MODULE Lifecycle ------------------------------
(***************************************************************************)
(* The API-level life cycle of untrusted input (C05).                        *)
(*   Decode(bytes) -> err | map(kind)                                        *)
(*   on a map: any number of Query steps (iteration, lookups anywhere,       *)
(*   accessors with any index, formatting, name resolution), Serialize       *)
(*   (guarded: greatest generated line < 100000), Redecode of what was       *)
(*   serialised, Rewrite(options), Flatten (index maps).                     *)
(* Outcomes are classes: ok / err are fine; panic, timeout, alloc never are. *)
(* Documents come from a FAULT MODEL: a well-formed base document plus a set *)
(* of faults; for some faults the outcome class of Decode is predictable.    *)
(***************************************************************************)
EXTENDS Naturals, Sequences, FiniteSets, TLC

Kinds == {"regular", "index", "hermes"}
BadOutcomes == {"panic", "timeout", "alloc"}

\* ---- fault model ----
TypedKeys == {"version", "sources", "sourceRoot", "sourcesContent", "mappings", "ignoreList", "sections",
              "x_facebook_sources", "rangeMappings", "debug_id"}       \* keys whose JSON type is checked by the reader
FreeKeys == {"file", "names"}                                          \* keys that accept any JSON value
AllKeys == TypedKeys \cup FreeKeys
WrongTypes == {"num", "str", "obj", "true"}
Faults ==    {[f |-> "drop", key |-> k, as |-> ""] : k \in AllKeys}
        \cup {[f |-> "type", key |-> k, as |-> t] : k \in AllKeys, t \in WrongTypes}
        \cup {[f |-> "null", key |-> k, as |-> ""] : k \in AllKeys}
        \cup {[f |-> "dup", key |-> k, as |-> ""] : k \in {"mappings", "sources", "version"}}
        \cup {[f |-> "len", key |-> k, as |-> d] : k \in {"sourcesContent", "x_facebook_sources", "ignoreList", "names", "sources"}, d \in {"short", "long", "empty"}}
        \cup {[f |-> "num", key |-> k, as |-> v] : k \in {"offset.line", "offset.column", "ignoreList", "version"}, v \in {"0", "2^31", "2^32-1", "2^32", "-1"}}
        \cup {[f |-> "vlq", key |-> k, as |-> v] : k \in {"dst_col", "src_id", "src_line", "src_col", "name_id"}, v \in {"7digits", "13digits", "neg", "2^32", "13ones", "13top"}}
        \cup {[f |-> "nest", key |-> "sections", as |-> d] : d \in {"1", "8", "200"}}
        \cup {[f |-> "hermes", key |-> "x_facebook_sources", as |-> v] : v \in {"badvlq", "bigname", "nometa", "extra", "neg", "sparse"}}

\* keys the document of a given kind actually has (a type fault on an absent key does nothing)
HasKey(kind, k) ==
    CASE kind = "regular" -> k \in {"version", "sources", "sourceRoot", "sourcesContent", "mappings", "ignoreList", "names", "file", "rangeMappings", "debug_id"}
      [] kind = "hermes" -> k \in {"version", "sources", "sourcesContent", "mappings", "names", "file", "x_facebook_sources"}
      [] kind = "index" -> k \in {"version", "sections", "file"}
\* "err": decoding must fail; "map": it must succeed; "any": not predicted
\* JSON types the reader accepts for a typed key
Accepts(k, t) == \/ (k = "version" /\ t = "num")
                 \/ (k \in {"sourceRoot", "mappings", "rangeMappings", "debug_id"} /\ t = "str")
Predict1(kind, ft) ==
    IF ~HasKey(kind, ft.key) /\ ft.f \in {"drop", "type", "null"} THEN "map"
    ELSE IF ft.f = "type" /\ ft.key \in TypedKeys /\ ~Accepts(ft.key, ft.as)
            /\ ~(ft.key = "debug_id")                                  \* a malformed id string is also an error, a number too: always err
         THEN "err"
    ELSE IF ft.f = "type" /\ ft.key = "debug_id" THEN "err"
    ELSE IF ft.f \in {"drop", "null"} /\ ft.key \in {"sourceRoot", "sourcesContent", "ignoreList", "file", "rangeMappings", "debug_id", "version"} THEN "map"
    ELSE "any"
\* faults are applied in order; a later fault that rewrites the same key undoes an earlier one
Touches(ft) ==
    CASE ft.f \in {"drop", "type", "null", "dup", "len"} -> {ft.key}
      [] ft.f = "num" -> (IF ft.key \in {"ignoreList", "version"} THEN {ft.key} ELSE {})
      [] ft.f = "vlq" -> {"mappings", "rangeMappings"}
      [] ft.f = "hermes" -> (IF ft.as = "sparse" THEN {"x_facebook_sources", "sources", "sourcesContent", "mappings"} ELSE {"x_facebook_sources"})
      [] OTHER -> {}
Survives(fs, i) == \A j \in DOMAIN fs : j > i => Touches(fs[j]) \cap Touches(fs[i]) = {}
Predict(kind, fs) ==
    IF \E i \in DOMAIN fs : Predict1(kind, fs[i]) = "err" /\ Survives(fs, i) THEN "err"
    ELSE IF \A i \in DOMAIN fs : Predict1(kind, fs[i]) = "map" THEN "map" ELSE "any"

\* ---- life-cycle machine ----
\* st: [phase, kind, bytes (a serialised form exists), line_ok (serialisation guard)]
LInit == [phase |-> "start", kind |-> "", bytes |-> FALSE]
\* step: [op, out, kind] as logged; returns the next state, or phase "REJECT" if the step is not allowed
LStep(st, s, pred) ==
    IF s.out \in BadOutcomes THEN [st EXCEPT !.phase = "REJECT"]                     \* never allowed
    ELSE CASE s.op = "decode" ->
            IF st.phase # "start" THEN [st EXCEPT !.phase = "REJECT"]
            ELSE IF s.out = "err" THEN (IF pred = "map" THEN [st EXCEPT !.phase = "REJECT"] ELSE [st EXCEPT !.phase = "failed"])
            ELSE IF s.out = "map" /\ s.kind \in Kinds
                 THEN (IF pred = "err" THEN [st EXCEPT !.phase = "REJECT"] ELSE [phase |-> "map", kind |-> s.kind, bytes |-> FALSE])
            ELSE [st EXCEPT !.phase = "REJECT"]
      [] s.op = "detect" -> st                                                       \* detection predicates: any boolean, no crash
      [] s.op = "query" -> IF st.phase = "map" /\ s.out = "ok" THEN st ELSE [st EXCEPT !.phase = "REJECT"]
      [] s.op = "serialize" ->
            IF st.phase # "map" THEN [st EXCEPT !.phase = "REJECT"]
            ELSE IF s.out = "ok" THEN [st EXCEPT !.bytes = TRUE]
            ELSE IF s.out = "skipped" THEN st                                        \* greatest generated line >= 100000
            ELSE [st EXCEPT !.phase = "REJECT"]                                      \* serialising a decoded map cannot fail
      [] s.op = "redecode" ->
            IF st.phase = "map" /\ st.bytes /\ s.out = "map" /\ s.kind = st.kind THEN st
            ELSE [st EXCEPT !.phase = "REJECT"]                                      \* the serialised form decodes again
      [] s.op = "rewrite" ->
            IF st.phase = "map" /\ st.kind \in {"regular", "hermes"} /\ s.out \in {"ok", "err"} THEN st
            ELSE [st EXCEPT !.phase = "REJECT"]
      [] s.op = "flatten" ->
            IF st.phase = "map" /\ st.kind = "index" /\ s.out \in {"ok", "err"} THEN st
            ELSE [st EXCEPT !.phase = "REJECT"]
      [] OTHER -> [st EXCEPT !.phase = "REJECT"]
=============================================================================
