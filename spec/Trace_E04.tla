----------------------------- MODULE Trace_E04 -----------------------------
EXTENDS IndexExt, Json, IOUtils, TLC
Rec == ndJsonDeserialize(IOEnv.TRACE)
VARIABLES l, bad, free
vars == <<l, bad, free>>
FlatMatches(m, o) ==
    /\ (IF StrictlySorted(m.toks) THEN o.toks = m.toks ELSE Sorted(o.toks) /\ SameBag(o.toks, m.toks))
    /\ o.sources = m.sources /\ o.names = m.names /\ o.contents = m.contents /\ o.ignore = m.ignore /\ o.file = m.file
FlatOutcomeOK(p, o) == LET f == FlattenIdx(p) IN (o.k = "ok") = f.ok /\ (f.ok => FlatMatches(f.m, o.p))
JudgeTyped(e) == /\ e.out.k = "ok"
                 /\ \A w \in {"regular", "index", "hermes"} :
                      LET t == TypedOutcome(e.args.doc, w) IN t = "free" \/ e.out[w] = t
JudgeSections(e) ==
    /\ e.out.k = "ok"
    /\ FlatOutcomeOK(e.args.p0, e.out.flat0)                                           \* as decoded (section k unresolved)
    /\ FlatOutcomeOK(WithSection(e.args.p0, e.args.k, <<e.args.m>>), e.out.flat1)      \* after set_sourcemap(Some(m))
    /\ FlatOutcomeOK(WithSection(e.args.p0, e.args.k, <<>>), e.out.flat2)              \* after set_sourcemap(None)
    /\ e.out.url = e.args.newurl /\ e.out.file = e.args.newfile                         \* setters are reported ...
    /\ e.out.url_written = e.args.newurl /\ e.out.file_written = e.args.newfile         \* ... and written out
\* flatten_and_rewrite is the composition of the two specified operations: IndexMap!FlattenIdx, then Rewrite!RewriteOK
\* (judged when the flattened tokens are strictly ordered: among tokens sharing a position the interning order,
\* hence the ids, follow the crate's unstable sort)
JudgeFlattenRewrite(e) ==
    LET f == FlattenIdx(e.args.p0) IN
    IF ~f.ok THEN e.out.k = "err"
    ELSE /\ e.out.k = "ok"
         /\ (StrictlySorted(f.m.toks) => RewriteOK(f.m @@ [debug_id |-> <<>>], e.args.opts, e.out.p2))
Judge(e) == CASE e.op = "typed" -> JudgeTyped(e)
              [] e.op = "flatten_rewrite" -> JudgeFlattenRewrite(e)
              [] e.op = "sections" -> JudgeSections(e)
              [] OTHER -> FALSE
Free(e) == FALSE
Init == l = 1 /\ bad = <<>> /\ free = <<>>
Next == /\ l <= Len(Rec)
        /\ l' = l + 1
        /\ bad' = IF Judge(Rec[l]) THEN bad ELSE Append(bad, Rec[l].i)
        /\ free' = IF Free(Rec[l]) THEN Append(free, Rec[l].i) ELSE free
Spec == Init /\ [][Next]_vars
Report == (l = Len(Rec) + 1) => PrintT("RESULT " \o ToJson([events |-> Len(Rec), bad |-> bad, free |-> free]))
=============================================================================
