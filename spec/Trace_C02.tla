---------------------------- MODULE Trace_C02 -----------------------------
(* C02/C06: every recorded decode of a document written by the harness's   *)
(* own writer must be what the independent reading (Doc.tla, Mappings.tla)  *)
(* gives.                                                                   *)
EXTENDS Doc, Json, IOUtils

Rec == ndJsonDeserialize(IOEnv.TRACE)
VARIABLES l, bad, free
vars == <<l, bad, free>>

JudgeDecodeBig(e) == LET r == DecodeV(e.args.text, e.args.nsrc, e.args.nnm) IN
                     IF r.k = "err" THEN e.out.k = "err"
                     ELSE IF r.k = "free" THEN e.out.k \in {"ok", "err"}
                     ELSE e.out.k = "ok" /\ VToksEq(e.out.vtoks, r.toks)
Judge(e) == CASE e.op = "decode" -> JudgeDecode(e.args.doc, e.out)
              [] e.op = "decode_big" -> JudgeDecodeBig(e)
              [] OTHER -> FALSE

Free(e) == \/ (e.op = "decode" /\ DocStatus(e.args.doc) = "free")
           \/ (e.op = "decode_big" /\ DecodeV(e.args.text, e.args.nsrc, e.args.nnm).k = "free")

Init == l = 1 /\ bad = <<>> /\ free = <<>>
Next == /\ l <= Len(Rec)
        /\ l' = l + 1
        /\ bad' = IF Judge(Rec[l]) THEN bad ELSE Append(bad, Rec[l].i)
        /\ free' = IF Free(Rec[l]) THEN Append(free, Rec[l].i) ELSE free
Spec == Init /\ [][Next]_vars
Report == (l = Len(Rec) + 1) => PrintT("RESULT " \o ToJson([events |-> Len(Rec), bad |-> bad, free |-> free]))
=============================================================================
