CONSTANTS
  MaxToks = 4
  Lines = {0,2}
  Cols = {0,2,3}
  WithRange = FALSE
SPECIFICATION Spec
INVARIANTS AlgorithmRefinesLookup AlgorithmMatchesAbstract WindowInvariant TokensOrdered EmitCase
CHECK_DEADLOCK FALSE
