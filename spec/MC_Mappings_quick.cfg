CONSTANTS
  NSegs = 2
  Faults = TRUE
  FaultSegs = 1
  Wide = FALSE
SPECIFICATION Spec
INVARIANTS MachineIsDeclarative FoldIsMachine MalformedRejected IndicesResolve LinesNonDecreasing LineIsSemiCount ExactAgrees EmitCase
CHECK_DEADLOCK FALSE
