--------------------------- MODULE MC_RamBundle ---------------------------
(* TLC assembles every small bundle model (slots empty / NUL-only / with    *)
(* payload incl. non-UTF-8 and embedded NUL, every physical order), lays it *)
(* out, optionally applies one corruption (truncation at every length, each *)
(* count/size/offset/length field set to boundary and near-2^32 values,     *)
(* wrong magic), and checks on the model that the declarative reader        *)
(* recovers exactly what the writer wrote for well-formed bundles and never *)
(* reads outside the buffer.                                                *)
EXTENDS RamBundle, TLC, Json

CONSTANTS MaxSlots, Startups

St_quick == { <<1>>, <<1, 2, 3>> }
St_thorough == { <<1>>, <<1, 2, 3>>, <<0>> }
Payloads == { <<>>, <<7>>, <<200, 0>> }         \* NUL-only module, 1 byte, non-UTF-8 + embedded NUL
SlotVals == { <<>> } \cup { <<p>> : p \in Payloads }

VARIABLES phase, m, bytes, how
vars == <<phase, m, bytes, how>>

Init == /\ phase = "build" /\ bytes = <<>> /\ how = "none"
        /\ \E s \in Startups : m = [startup |-> s, slots |-> <<>>, order |-> <<>>]
AddSlot == /\ phase = "build" /\ Len(m.slots) < MaxSlots
           /\ \E v \in SlotVals : m' = [m EXCEPT !.slots = Append(m.slots, v)]
           /\ UNCHANGED <<phase, bytes, how>>
\* choose the physical order of the present modules and lay the bundle out
LayOut == /\ phase = "build"
          /\ \E ord \in {o \in [1..Cardinality(Present(m)) -> Present(m)] :
                            \A a, b \in DOMAIN o : a # b => o[a] # o[b]} :
                /\ m' = [m EXCEPT !.order = ord]
                /\ bytes' = Layout([m EXCEPT !.order = ord])
          /\ phase' = "laid" /\ UNCHANGED how
SetField(b, at, f) == SubSeq(b, 1, at) \o f \o SubSeq(b, at + 5, Len(b))
FieldVals(b) == { LE(0), LE(1), LE(Len(b) - 12), LE(Len(b)), LE(Len(b) + 1), <<255, 255, 255, 255>>, <<0, 0, 0, 128>>,
                  <<255, 255, 255, 127>>, <<256 - (12 + 8 * Len(m.slots)), 255, 255, 255>>, <<255 - (12 + 8 * Len(m.slots)), 255, 255, 255>> }
Keep == phase = "laid" /\ phase' = "done" /\ UNCHANGED <<m, bytes, how>>
Truncate == /\ phase = "laid"
            /\ \E n \in 0..(Len(bytes) - 1) : bytes' = SubSeq(bytes, 1, n)
            /\ phase' = "done" /\ how' = "truncate" /\ UNCHANGED m
Corrupt == /\ phase = "laid"
           /\ \E at \in {4, 8} \cup {12 + 4 * k : k \in 0..(2 * Len(m.slots) - 1)}, f \in FieldVals(bytes) :
                 bytes' = SetField(bytes, at, f)
           /\ phase' = "done" /\ how' = "field" /\ UNCHANGED m
BadMagic == /\ phase = "laid"
            /\ \E k \in 1..4 : bytes' = [bytes EXCEPT ![k] = (bytes[k] + 1) % 256]
            /\ phase' = "done" /\ how' = "magic" /\ UNCHANGED m
Next == AddSlot \/ LayOut \/ Keep \/ Truncate \/ Corrupt \/ BadMagic
Spec == Init /\ [][Next]_vars

\* reader o writer = identity on well-formed bundles
WellFormedRoundTrip ==
    (phase = "done" /\ how = "none") =>
        /\ IsBundle(bytes)
        /\ Num(CountF(bytes)) = Len(m.slots)
        /\ Agree(Startup(bytes), OK(m.startup)) /\ Startup(bytes).k # "err"
        /\ \A i \in DOMAIN m.slots :
              IF m.slots[i] = <<>> THEN GetModule(bytes, i - 1) = NONE
              ELSE GetModule(bytes, i - 1) = OK(m.slots[i][1])
        /\ GetModule(bytes, Len(m.slots)) = ERR
        /\ Iter(bytes, 64) = [n \in 1..Cardinality(Present(m)) |->
                                 LET i == SetToSortSeq(Present(m), <)[n] IN [id |-> i - 1, r |-> OK(m.slots[i][1])]]
\* whatever the bytes, an ok result is a slice of the buffer
NeverOutside ==
    (phase = "done" /\ Len(bytes) >= 12) =>
        \A i \in 0..MaxSlots : LET r == GetModule(bytes, i) IN r.k = "ok" => Len(r.v) <= Len(bytes)
RecognitionIsHeaderAndMagic == (phase = "done" /\ how = "magic") => ~IsBundle(bytes)
TruncatedHeaderRefused == (phase = "done" /\ Len(bytes) < 12) => ~IsBundle(bytes)

EmitCase == phase = "done" => PrintT("CASE " \o ToJson([op |-> "bundle", bytes |-> bytes, how |-> how, nslots |-> Len(m.slots)]))
=============================================================================
