SPECIFICATION SpecTLC
INVARIANTS SameAsVlq RoundTrip Digits
CHECK_DEADLOCK FALSE
