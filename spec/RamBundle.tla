----------------------------- MODULE RamBundle -----------------------------
(***************************************************************************)
(* Indexed RAM bundles (C20).  A bundle is a byte sequence:                 *)
(*   header  magic(4, LE) | module count(4, LE) | startup code size(4, LE)  *)
(*   table   count x ( offset(4, LE) | length(4, LE) ), offsets relative to *)
(*           the end of the table, (0,0) = empty slot, length includes the  *)
(*           trailing NUL                                                    *)
(*   data    startup code, then the modules, each followed by NUL           *)
(* 32-bit fields are kept as 4 bytes: a field whose upper half is non-zero  *)
(* is HUGE (beyond every model buffer), so no arithmetic above 2^16 occurs. *)
(* Layout is the writer, the access operators are the declarative reader.   *)
(***************************************************************************)
EXTENDS Naturals, Integers, Sequences, SequencesExt, FiniteSets

MAGIC == <<229, 209, 11, 251>>          \* 0xFB0BD1E5 little endian
LE(n) == <<n % 256, (n \div 256) % 256, 0, 0>>
Field(b, at) == SubSeq(b, at + 1, at + 4)            \* at is a 0-based byte offset
IsSmall(f) == f[3] = 0 /\ f[4] = 0
Num(f) == f[1] + 256 * f[2]

(* ------------------------------- writer -------------------------------- *)
\* model: [startup : bytes, slots : Seq(<<>> | <<payload>>), order : permutation of the present slot ids]
Present(m) == {i \in DOMAIN m.slots : m.slots[i] # <<>>}
ModBytes(m, i) == m.slots[i][1] \o <<0>>
\* relative offset of slot i = startup + all modules placed before it in physical order
RelOff(m, i) ==
    LET k == CHOOSE j \in DOMAIN m.order : m.order[j] = i IN
    Len(m.startup) + FoldLeft(LAMBDA acc, j : acc + Len(ModBytes(m, m.order[j])), 0, [j \in 1..(k - 1) |-> j])
Layout(m) ==
    MAGIC \o LE(Len(m.slots)) \o LE(Len(m.startup))
    \o FoldLeft(LAMBDA acc, i : acc \o (IF m.slots[i] = <<>> THEN LE(0) \o LE(0)
                                        ELSE LE(RelOff(m, i)) \o LE(Len(m.slots[i][1]) + 1)),
                <<>>, [i \in 1..Len(m.slots) |-> i])
    \o m.startup
    \o FoldLeft(LAMBDA acc, j : acc \o ModBytes(m, m.order[j]), <<>>, [j \in 1..Len(m.order) |-> j])

(* ------------------------------- reader -------------------------------- *)
IsBundle(b) == Len(b) >= 12 /\ SubSeq(b, 1, 4) = MAGIC
CountF(b) == Field(b, 4)
SizeF(b) == Field(b, 8)
\* results: [k |-> "ok", v |-> ...] | [k |-> "none"] | [k |-> "err"] | [k |-> "free"]
\* ("free": an empty read exactly at the end of the buffer - the statement does not decide it)
ERR == [k |-> "err", v |-> <<>>]
NONE == [k |-> "none", v |-> <<>>]
FREE == [k |-> "free", v |-> <<>>]
OK(v) == [k |-> "ok", v |-> v]

Sco(b) == 12 + 8 * Num(CountF(b))                    \* only meaningful when the count is small
Slice(b, at, n) ==                                   \* bounds-checked read of n bytes at 0-based offset at
    IF at > Len(b) \/ at + n > Len(b) THEN ERR
    ELSE IF at = Len(b) THEN FREE
    ELSE OK(SubSeq(b, at + 1, at + n))

Startup(b) == IF ~IsSmall(CountF(b)) \/ ~IsSmall(SizeF(b)) THEN ERR
              ELSE Slice(b, Sco(b), Num(SizeF(b)))

HUGEID == 2147483647          \* stand-in for ids of 2^32 and beyond (past every table: counts are 32-bit)
GetModule(b, i) ==
    IF i = HUGEID THEN ERR
    ELSE IF IsSmall(CountF(b)) /\ i >= Num(CountF(b)) THEN ERR             \* id past the table
    ELSE IF 12 + 8 * i + 8 > Len(b) THEN ERR                          \* table entry outside the buffer
    ELSE LET off == Field(b, 12 + 8 * i)  len == Field(b, 12 + 8 * i + 4) IN
         IF off = LE(0) /\ len = LE(0) THEN NONE                       \* empty slot
         ELSE IF len = LE(0) THEN ERR                                  \* zero length with non-zero offset
         ELSE IF ~IsSmall(CountF(b)) \/ ~IsSmall(off) \/ ~IsSmall(len) THEN ERR    \* points past any buffer
         ELSE Slice(b, Sco(b) + Num(off), Num(len) - 1)

\* the iterator: ids 0 .. count-1 (at most lim), empty slots skipped, errors reported in place
IterIds(b, lim) == IF IsSmall(CountF(b)) /\ Num(CountF(b)) < lim THEN Num(CountF(b)) ELSE lim
Iter(b, lim) == SelectSeq([i \in 1..IterIds(b, lim) |-> [id |-> i - 1, r |-> GetModule(b, i - 1)]],
                          LAMBDA x : x.r.k # "none")

Agree(spec, obs) == spec.k = "free" \/ (spec.k = obs.k /\ (spec.k = "ok" => spec.v = obs.v))
=============================================================================
