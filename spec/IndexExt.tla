------------------------------ MODULE IndexExt ------------------------------
(***************************************************************************)
(* Extension E04 (beyond the listed properties), specified as found:        *)
(*  - typed entry points: SourceMap / SourceMapIndex / SourceMapHermes      *)
(*    ::from_slice succeed exactly on documents of their own kind and       *)
(*    report IncompatibleSourceMap otherwise (a malformed document is an    *)
(*    error for all of them);                                               *)
(*  - sections resolved after decoding: an index whose section carries only *)
(*    a URL cannot be flattened; after set_sourcemap(Some(m)) on that       *)
(*    section it flattens to what IndexMap!FlattenIdx gives for the index   *)
(*    with m in place; after set_sourcemap(None) it cannot again;           *)
(*    set_url / set_file are reported by the accessors and written out.     *)
(***************************************************************************)
EXTENDS IndexMap

\* outcome class of <Type>::from_slice(doc) for Type in {"regular", "index", "hermes"}
TypedOutcome(d, want) ==
    LET s == DocStatus(d) IN
    IF s = "err" THEN "err" ELSE IF s = "free" THEN "free"
    ELSE IF Kind(d) = want THEN "ok" ELSE "incompatible"

\* index projection p with the map of section k (1-based) replaced by m (<<>> or <<node>>)
WithSection(p, k, m) == [p EXCEPT !.sections = [p.sections EXCEPT ![k] = [p.sections[k] EXCEPT !.map = m]]]
=============================================================================
