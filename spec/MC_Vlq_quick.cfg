CONSTANTS
  FullLen = 2
  RedLen = 4
  SmallBits = 7
SPECIFICATION Spec
INVARIANTS MachineAgrees CanonicalFixpoint ValuesWellFormed RoundTrip SmallInts WordArithmetic EmitCase
CHECK_DEADLOCK FALSE
