----------------------------- MODULE Trace_C13 -----------------------------
(* C13: stateful trace validation.  Every recorded builder / map call steps *)
(* the interning model of Builder.tla; return values (ids, raw tokens) and, *)
(* once the map exists, the full observation after every call must match.   *)
EXTENDS Builder, Json, IOUtils
Rec == ndJsonDeserialize(IOEnv.TRACE)
VARIABLES l, bad, free, b
vars == <<l, bad, free, b>>
Init == l = 1 /\ bad = <<>> /\ free = <<>> /\ b = BInit
Next == /\ l <= Len(Rec)
        /\ LET e == Rec[l]
               b0 == IF e.first THEN BInit ELSE b
               r == BApply(b0, e.args)
               ok == /\ e.out.k = "ok"
                     /\ (e.args.op \in {"add_source", "add_name", "add", "add_raw"} => e.out.ret = r.ret)
                     /\ (e.out.obs # <<>> => MapObsOK(r.st, e.args.op, e.out.obs[1]))
                     /\ (e.out.bobs # <<>> => BuilderObsOK(r.st, e.out.bobs[1]))          \* the builder's own getters
                     /\ (e.args.op \in {"into_sourcemap", "m_set_source_root", "m_set_source", "m_set_source_contents", "m_saveload"}
                            => e.out.obs # <<>>)
           IN /\ b' = IF e.out.k = "ok" /\ e.out.obs # <<>> THEN [r.st EXCEPT !.toks = e.out.obs[1].toks] ELSE r.st
              /\ bad' = IF ok THEN bad ELSE Append(bad, e.i)
        /\ l' = l + 1 /\ UNCHANGED free
Spec == Init /\ [][Next]_vars
Report == (l = Len(Rec) + 1) => PrintT("RESULT " \o ToJson([events |-> Len(Rec), bad |-> bad, free |-> free]))
=============================================================================
