CONSTANTS
  MaxSegs = 3
SPECIFICATION Spec
INVARIANTS FoldIsMachine UnparsableDisables EntryPerSegment EmitCase
CHECK_DEADLOCK FALSE
