------------------------------ MODULE MC_Vlq ------------------------------
(* Bounded exhaustive model of the VLQ codec (C11).  TLC (a) checks that the *)
(* decoder machine and the declarative reading agree, that encoding is the  *)
(* inverse of decoding and that Canonical characterises the fixed points,   *)
(* and (b) enumerates the universe: every finished behaviour prints its     *)
(* input as a CASE line, which the harness replays into the real crate.     *)
EXTENDS Vlq, TLC, Json

CONSTANTS FullLen,      \* all digit strings up to this length over the full alphabet
          RedLen,       \* all digit strings up to this length over the reduced alphabet
          SmallBits     \* all magnitudes of up to this many bits

Reduced == {0, 1, 15, 16, 31, 32, 33, 47, 63}
SeqsUpTo(S, n) == UNION {[1..k -> S] : k \in 0..n}
Rep(d, n) == [i \in 1..n |-> d]

\* long continuation runs around the 13/14 digit limit, terminated or not
LongRuns == {Rep(c, n) \o t : c \in {32, 33, 63}, n \in 11..14, t \in {<<>>, <<0>>, <<1>>, <<31>>, <<0, 2>>}}
         \cup {<<2>> \o Rep(c, n) \o <<1>> : c \in {32, 63}, n \in 12..13}

DigitUniverse == SeqsUpTo(0..63, FullLen) \cup SeqsUpTo(Reduced, RedLen) \cup LongRuns

SmallMags == {Trim(b) : b \in SeqsUpTo(Bit, SmallBits)}
OneBit(k) == [i \in 1..k |-> IF i = k THEN 1 ELSE 0]             \* 2^(k-1)
Ones(k)   == [i \in 1..k |-> 1]                                   \* 2^k - 1
PlusOne(k) == [i \in 1..k |-> IF i = 1 \/ i = k THEN 1 ELSE 0]    \* 2^(k-1) + 1
BigMags == UNION {{OneBit(k), Ones(k), PlusOne(k)} : k \in 1..MaxMagBits}
Mags == SmallMags \cup BigMags
Values == {MkVal(<<s>> \o m) : s \in Bit, m \in Mags}
ValueLists == {<<v>> : v \in Values}
           \cup {<<v, w>> : v \in {MkVal(<<s>> \o m) : s \in Bit, m \in {<<>>, <<1>>, Ones(5), OneBit(62)}},
                            w \in {MkVal(<<s>> \o m) : s \in Bit, m \in {<<>>, <<1>>, Ones(4), Ones(62)}}}

AddMags == {Trim(b) : b \in SeqsUpTo(Bit, 5)} \cup {Ones(29), OneBit(30)}
AddVals == {MkVal(<<s>> \o m) : s \in Bit, m \in AddMags}
Universe == {[op |-> "dec", ds |-> d, vals |-> <<>>] : d \in DigitUniverse}
       \cup {[op |-> "enc", ds |-> <<>>, vals |-> vs] : vs \in ValueLists}
       \cup {[op |-> "add", ds |-> <<>>, vals |-> <<a, b>>] : a \in AddVals, b \in AddVals}

VARIABLES inp, pos, st
vars == <<inp, pos, st>>

Init == inp \in Universe /\ pos = 0 /\ st = DecInit
\* one machine step per input digit
Digit == /\ inp.op = "dec" /\ pos < Len(inp.ds)
         /\ pos' = pos + 1
         /\ st' = DecStep(st, inp.ds[pos + 1])
         /\ UNCHANGED inp
Next == Digit
Spec == Init /\ [][Next]_vars

Done == inp.op \in {"enc", "add"} \/ pos = Len(inp.ds)

\* machine = declarative reading
MachineAgrees ==
    (Done /\ inp.op = "dec") =>
        LET m == DecFinish(st)  d == DecDecl(inp.ds) IN
        /\ m.k = d.k
        /\ m.vals = d.vals
        /\ m = Dec(inp.ds)
\* canonical texts are exactly the fixed points of Enc o Dec
CanonicalFixpoint ==
    (Done /\ inp.op = "dec" /\ DecFinish(st).k = "ok") =>
        (Canonical(inp.ds) <=> EncList(DecFinish(st).vals) = inp.ds)
\* decoded values are well formed
ValuesWellFormed ==
    (Done /\ inp.op = "dec") => \A i \in DOMAIN DecFinish(st).vals : IsValue(DecFinish(st).vals[i])
\* Dec o Enc = identity; encodings are canonical and at most 13 digits per value
RoundTrip ==
    (inp.op = "enc") =>
        LET ds == EncList(inp.vals) IN
        /\ Dec(ds).k = "ok" /\ Dec(ds).vals = inp.vals
        /\ Canonical(ds)
        /\ \A i \in DOMAIN inp.vals : Len(Enc(inp.vals[i])) <= MaxDigits /\ InDomain(inp.vals[i])
\* small integers embed
SmallInts == (inp.op = "enc") =>
        \A i \in DOMAIN inp.vals : Small(inp.vals[i]) => FromInt(ToInt(inp.vals[i])) = inp.vals[i]

\* bit-list arithmetic agrees with the integers wherever both are defined
WordArithmetic == (inp.op = "add") =>
    LET a == inp.vals[1]  b == inp.vals[2]  r == AddV(a, b) IN
    /\ IsValue(r)
    /\ ((Len(a.bits) <= 29 /\ Len(b.bits) <= 29) => ToInt(r) = ToInt(a) + ToInt(b))
    /\ SubV(r, b) = a /\ AddV(b, a) = r
EmitCase == (Done /\ inp.op # "add") => PrintT("CASE " \o ToJson(inp))
=============================================================================
