----------------------------- MODULE Trace_C18 -----------------------------
(* C18: reference discovery against Detector.tla; data URLs produced by the *)
(* library decode back to an equal map, also through a discovered comment;  *)
(* every serialised map is recognised by the detection predicate.           *)
EXTENDS Detector, Json, IOUtils
Rec == ndJsonDeserialize(IOEnv.TRACE)
VARIABLES l, bad, free
vars == <<l, bad, free>>
JudgeLocate(e) == /\ e.out.k = "ok"
                  /\ e.out.reader = Locate(e.args.file)
                  /\ e.out.reader_chunked = Locate(e.args.file)      \* the same through a source that returns short reads
                  /\ e.out.slice = Locate(e.args.file)
                  /\ e.out.view = Locate(e.args.file)
                  \* views with a history (index built completely / partly, slices taken, cloned, asked twice, from_string)
                  /\ \A k \in DOMAIN e.out.views : e.out.views[k] = Locate(e.args.file)
JudgeDataUrl(e) ==
    /\ e.out.k = "ok"
    /\ e.out.direct.k = "ok" /\ RoundTripEq(e.args.p1, e.out.direct)            \* to_data_url -> decode_data_url
    /\ e.out.via_comment.k = "ok" /\ RoundTripEq(e.args.p1, e.out.via_comment)  \* ... also when discovered from a comment
    /\ e.out.found_legacy = e.args.legacy
JudgeDetect(e) == e.out.k = "ok" /\ e.out.detect_slice /\ e.out.detect_reader
Judge(e) == CASE e.op = "locate" -> JudgeLocate(e)
              [] e.op = "dataurl" -> JudgeDataUrl(e)
              [] e.op = "detect" -> JudgeDetect(e)
              [] OTHER -> FALSE
Free(e) == FALSE
Init == l = 1 /\ bad = <<>> /\ free = <<>>
Next == /\ l <= Len(Rec)
        /\ l' = l + 1
        /\ bad' = IF Judge(Rec[l]) THEN bad ELSE Append(bad, Rec[l].i)
        /\ free' = IF Free(Rec[l]) THEN Append(free, Rec[l].i) ELSE free
Spec == Init /\ [][Next]_vars
Report == (l = Len(Rec) + 1) => PrintT("RESULT " \o ToJson([events |-> Len(Rec), bad |-> bad, free |-> free]))
=============================================================================
