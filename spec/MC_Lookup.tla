----------------------------- MODULE MC_Lookup -----------------------------
(* Bounded exhaustive model of token lookup (C04, C07): the code's           *)
(* algorithm -- binary search that may probe ANY index of the live window,  *)
(* then a walk back over equal keys, or "insertion index - 1" when the key  *)
(* is absent -- refines the declarative LookupOK relation, for every ordered*)
(* position list with repetitions and every query.  TLC also enumerates the *)
(* lists; the harness queries the real map at every grid position.          *)
EXTENDS MapModel, Json

CONSTANTS MaxToks, Lines, Cols, WithRange

Flags == IF WithRange THEN {0, 1} ELSE {0}
QLines == Lines \cup {3, MAXU}
QCols == Cols \cup {1, 4, MAXU}
Queries == {<<l, c>> : l \in QLines, c \in QCols}

VARIABLES phase, ts, q, lo, hi, idx, res
vars == <<phase, ts, q, lo, hi, idx, res>>

Init == phase = "build" /\ ts = <<>> /\ q = <<0, 0>> /\ lo = 0 /\ hi = 0 /\ idx = 0 /\ res = 0
\* payload: original line = insertion index, so that token identity is observable; original column 0, so that the
\* first token maps to the origin 0:0 of its source (the smallest payload there is)
AddToken == /\ phase = "build" /\ Len(ts) < MaxToks
            /\ \E l \in Lines, c \in Cols, f \in Flags :
                 /\ (IF ts = <<>> THEN TRUE ELSE PosLe(Pos(ts[Len(ts)]), <<l, c>>))
                 /\ ts' = Append(ts, Tok(l, c, 0, Len(ts), 0, -1, f))
            /\ UNCHANGED <<phase, q, lo, hi, idx, res>>
Pick == /\ phase = "build"
        /\ \E qq \in Queries : q' = qq
        /\ phase' = "search" /\ lo' = 0 /\ hi' = Len(ts)
        /\ UNCHANGED <<ts, idx, res>>
\* binary search step with an arbitrary probe inside the window (indices are 0-based as in the code)
Probe == /\ phase = "search" /\ lo < hi
         /\ \E mid \in lo..(hi - 1) :
              LET k == Pos(ts[mid + 1]) IN
              IF k = q THEN phase' = "walk" /\ idx' = mid /\ UNCHANGED <<lo, hi, res>>
              ELSE IF PosLt(k, q) THEN lo' = mid + 1 /\ UNCHANGED <<phase, hi, idx, res>>
              ELSE hi' = mid /\ UNCHANGED <<phase, lo, idx, res>>
         /\ UNCHANGED <<ts, q>>
\* key absent: the insertion index is lo; the answer is the token before it (none if lo = 0)
Absent == /\ phase = "search" /\ lo = hi
          /\ phase' = "done" /\ res' = lo /\ idx' = lo
          /\ UNCHANGED <<ts, q, lo, hi>>
\* key present: walk back to the first token holding it
WalkBack == /\ phase = "walk"
            /\ IF idx > 0 /\ Pos(ts[idx]) = q      \* ts[idx] is the 0-based idx-1
               THEN idx' = idx - 1 /\ UNCHANGED <<phase, res>>
               ELSE phase' = "done" /\ res' = idx + 1 /\ UNCHANGED idx
            /\ UNCHANGED <<ts, q, lo, hi>>
Next == AddToken \/ Pick \/ Probe \/ Absent \/ WalkBack
Spec == Init /\ [][Next]_vars

\* res = 1-based index of the returned token, 0 = none
Answer == IF res = 0 THEN <<>> ELSE <<[tok |-> ts[res], sl |-> Sl(ts[res]),
              sc |-> IF Rg(ts[res]) = 1 /\ Dl(ts[res]) = q[1] /\ q[2] # MAXU THEN Sc(ts[res]) + (q[2] - Dc(ts[res])) ELSE Sc(ts[res])]>>
AlgorithmRefinesLookup == phase = "done" => LookupOK(ts, q, Answer)
AlgorithmMatchesAbstract == phase = "done" => res \in GlbResults(ts, q)
WindowInvariant == phase = "search" =>
    /\ \A i \in 1..lo : PosLt(Pos(ts[i]), q)
    /\ \A i \in (hi + 1)..Len(ts) : PosLt(q, Pos(ts[i]))
TokensOrdered == Sorted(ts)

EmitCase == (phase = "search" /\ lo = 0 /\ hi = Len(ts) /\ q = <<0, 0>>) =>
    PrintT("CASE " \o ToJson([op |-> "lookup", toks |-> ts, nsrc |-> 1, nnm |-> 0, qs |-> SetToSeq(Queries)]))
=============================================================================
