----------------------------- MODULE Trace_E03 -----------------------------
(* Extension E03: rewrite with the "~" option against CommonPrefix.tla.     *)
EXTENDS CommonPrefix, Json, IOUtils
Rec == ndJsonDeserialize(IOEnv.TRACE)
VARIABLES l, bad, free
vars == <<l, bad, free>>
Judge(e) == /\ e.op = "tilde" /\ e.out.k = "ok"
            /\ LET b == RewriteTildeSpec(e.args.p1, e.args.raw, e.args.opts) IN
               /\ (IF StrictlySorted(b.toks) THEN e.out.p2.toks = b.toks ELSE Sorted(e.out.p2.toks) /\ SameBag(e.out.p2.toks, b.toks))
               /\ e.out.p2.sources = b.srcs /\ e.out.p2.names = b.names /\ e.out.p2.contents = Contents(b)
Free(e) == CommonPrefixDeviates(e.args.raw)
Init == l = 1 /\ bad = <<>> /\ free = <<>>
Next == /\ l <= Len(Rec)
        /\ l' = l + 1
        /\ bad' = IF Judge(Rec[l]) THEN bad ELSE Append(bad, Rec[l].i)
        /\ free' = IF Free(Rec[l]) THEN Append(free, Rec[l].i) ELSE free
Spec == Init /\ [][Next]_vars
Report == (l = Len(Rec) + 1) => PrintT("RESULT " \o ToJson([events |-> Len(Rec), bad |-> bad, free |-> free]))
=============================================================================
