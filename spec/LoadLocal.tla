------------------------------ MODULE LoadLocal ------------------------------
(***************************************************************************)
(* Extension E07: SourceMapBuilder::load_local_source_contents against a    *)
(* small model of the file system, specified as found.                      *)
(* A reference is a source name as it was INTERNED (Builder!keys).  Names   *)
(* are over a closed alphabet (a-z, 0-9, '.', '_', '-', '/', ':'), so that  *)
(* URL joining is plain path arithmetic:                                    *)
(*   - a name with a scheme ("http://...", "webpack:///x", "a:b") is not a  *)
(*     local file: skipped;                                                 *)
(*   - a name starting with '/' is a path from the file system root;        *)
(*   - any other name is joined to the base directory; "." and ".."         *)
(*     components are resolved ("../x" leaves the base directory).          *)
(* Every source WITHOUT contents whose name is local is a candidate; the    *)
(* call returns the NUMBER OF CANDIDATES (not of files read); a candidate   *)
(* whose file exists (and is text) gets the file's text as contents.        *)
(* fs: sequence of [path, text], paths relative to the base directory,      *)
(* normalised, possibly starting with ".." components.                      *)
(***************************************************************************)
EXTENDS Builder

COLON == 58
DOT == 46
IsAlpha(c) == c \in 97..122
IsSchemeChar(c) == c \in 97..122 \/ c \in 48..57 \/ c \in {43, 45, 46}
\* "scheme:" prefix: a letter, then scheme characters, then ':' before any '/'
HasScheme(r) == /\ r # <<>> /\ IsAlpha(r[1])
                /\ \E i \in 2..Len(r) : r[i] = COLON /\ \A j \in 2..(i - 1) : IsSchemeChar(r[j])
IsRootPath(r) == r # <<>> /\ r[1] = SLASH
IsLocal(r) == ~HasScheme(r)

\* components of a relative name, "." dropped, ".." resolved against what precedes (kept when nothing precedes)
RECURSIVE Norm(_, _)
Norm(comps, acc) ==
    IF comps = <<>> THEN acc
    ELSE LET c == comps[1]  rest == SubSeq(comps, 2, Len(comps)) IN
         IF c = <<>> \/ c = <<DOT>> THEN Norm(rest, acc)
         ELSE IF c = <<DOT, DOT>> /\ acc # <<>> /\ acc[Len(acc)] # <<DOT, DOT>> THEN Norm(rest, SubSeq(acc, 1, Len(acc) - 1))
         ELSE Norm(rest, Append(acc, c))
RelPathOf(r) == Norm(SplitOn(r, SLASH), <<>>)

\* the text of the file a local, relative reference names, or <<>>
FileText(fs, r) ==
    LET hits == {k \in DOMAIN fs : RelPathOf(fs[k].path) = RelPathOf(r)} IN
    IF IsRootPath(r) \/ hits = {} \/ RelPathOf(r) = <<>> THEN <<>>          \* root paths / the directory itself: nothing to read
    ELSE << fs[CHOOSE k \in hits : TRUE].text >>

Candidates(b) == {i \in 1..Len(b.keys) : Contents(b)[i] = <<>> /\ IsLocal(b.keys[i])}
LoadLocal(b, fs) ==
    [st |-> [b EXCEPT !.contents = [i \in 1..Len(b.srcs) |->
                IF i \in Candidates(b) /\ FileText(fs, b.keys[i]) # <<>> THEN FileText(fs, b.keys[i]) ELSE Contents(b)[i]]],
     ret |-> Cardinality(Candidates(b))]
=============================================================================
