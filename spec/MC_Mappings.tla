---------------------------- MODULE MC_Mappings ----------------------------
(* Bounded exhaustive model of the mappings DECODER (C02, C06).             *)
(* Universe: every text assembled from a small alphabet of segments (1/4/5  *)
(* fields, wrong arities, positive and negative deltas, multi-digit values) *)
(* and separators (',', ';', empty segments and lines), for several array   *)
(* sizes; plus every single fault (foreign byte, continuation bit, dropped  *)
(* or added digit, 14-digit value, index delta of 2^32) at every position.  *)
(* The machine consumes one symbol per step.  Invariants at the end of the  *)
(* text: machine = declarative reading; malformed => error; ok => indices   *)
(* resolve and lines are non-decreasing.                                     *)
EXTENDS Mappings, Json

CONSTANTS NSegs,        \* number of segments per base text (0..NSegs)
          Faults,       \* TRUE: also enumerate single faults of the base texts
          FaultSegs,    \* ... of base texts with at most this many segments
          Wide          \* TRUE: the larger segment alphabet and more array sizes

SegAlpha == IF Wide
            THEN { <<0>>, <<2>>, <<3>>, <<36, 0>>,
                   <<0, 0, 0, 0>>, <<0, 2, 0, 0>>, <<0, 3, 0, 0>>, <<2, 0, 2, 5>>, <<2, 0, 3, 3>>,
                   <<0, 0, 0, 0, 0>>, <<0, 0, 0, 0, 2>>, <<0, 0, 0, 0, 3>>, <<2, 2, 2, 2, 2>>,
                   <<0, 0>>, <<0, 0, 0>>, <<0, 0, 0, 0, 0, 0>> }
            ELSE { <<2>>, <<3>>, <<36, 0>>,
                   <<0, 0, 0, 0>>, <<0, 2, 0, 0>>, <<2, 3, 3, 5>>,
                   <<0, 0, 0, 0, 2>>, <<0, 0, 0, 0, 3>>,
                   <<0, 0>>, <<0, 0, 0, 0, 0, 0>> }
Seps == { <<COMMA>>, <<SEMI>>, <<COMMA, COMMA>>, <<SEMI, SEMI>>, <<SEMI, COMMA>> }
Leads == { <<>>, <<SEMI>>, <<COMMA>> }
Trails == { <<>>, <<COMMA>>, <<SEMI>> }

Ins(s, i, x) == SubSeq(s, 1, i - 1) \o x \o SubSeq(s, i, Len(s))      \* insert x before position i
Del(s, i) == SubSeq(s, 1, i - 1) \o SubSeq(s, i + 1, Len(s))
Set(s, i, d) == [s EXCEPT ![i] = d]
Cont13 == [i \in 1..13 |-> 32]
Plus2p32 == <<32, 32, 32, 32, 32, 32, 8>>      \* VLQ of +2^32
Minus2p32 == <<33, 32, 32, 32, 32, 32, 8>>     \* VLQ of -2^32

FaultsOf(s) ==
       {Ins(s, i, <<133>>) : i \in 1..(Len(s) + 1)}                    \* '!' (ASCII, not in the alphabet)
  \cup {Ins(s, i, <<295, 269>>) : i \in 1..(Len(s) + 1)}               \* U+00E9 as two bytes >= 0x80
  \cup {Ins(s, i, <<132>>) : i \in {1, Len(s) + 1}}                    \* ' '
  \cup {Set(s, i, s[i] + 32) : i \in {j \in 1..Len(s) : s[j] < 32}}    \* continuation bit on a last digit
  \cup {Del(s, i) : i \in {j \in 1..Len(s) : s[j] < 64}}               \* field dropped
  \cup {Ins(s, i, <<0>>) : i \in 1..(Len(s) + 1)}                      \* field added
  \cup {Ins(s, i, Cont13) : i \in {j \in 1..Len(s) : s[j] < 64}}       \* value extended to 14+ digits
  \cup {Ins(Del(s, i), i, Plus2p32) : i \in {j \in 1..Len(s) : s[j] < 32}}  \* a delta replaced by +2^32
  \cup {Ins(Del(s, i), i, Minus2p32) : i \in {j \in 1..Len(s) : s[j] < 32}}

Sizes == { <<0, 0>>, <<1, 1>>, <<2, 2>> } \cup (IF Wide THEN { <<2, 0>>, <<1, 2>> } ELSE {})

VARIABLES phase, nsegs, text, nsrc, nnm, pos, st
vars == <<phase, nsegs, text, nsrc, nnm, pos, st>>

\* ---- phase "build": TLC assembles the input text nondeterministically ----
Init == /\ phase = "build" /\ nsegs = 0 /\ text \in Leads
        /\ nsrc = 0 /\ nnm = 0 /\ pos = 0 /\ st = DInit
AddSegment == /\ phase = "build" /\ nsegs < NSegs
              /\ \E sg \in SegAlpha, sp \in Seps :
                    text' = text \o (IF nsegs > 0 THEN sp ELSE <<>>) \o sg
              /\ nsegs' = nsegs + 1
              /\ UNCHANGED <<phase, nsrc, nnm, pos, st>>
\* close the text (trailing separator), fix the array sizes, optionally inject one fault
Close == /\ phase = "build"
         /\ \E tr \in Trails, z \in Sizes :
              /\ nsrc' = z[1] /\ nnm' = z[2]
              /\ \/ text' = text \o tr
                 \/ /\ Faults /\ nsegs <= FaultSegs /\ tr = <<>> /\ (IF text = <<>> THEN TRUE ELSE text[1] # COMMA)
                    /\ text' \in FaultsOf(text)
         /\ phase' = "run"
         /\ UNCHANGED <<nsegs, pos, st>>
\* ---- phase "run": the decoder machine, one symbol per step ----
Symbol == /\ phase = "run" /\ pos < Len(text)
          /\ pos' = pos + 1
          /\ st' = DStep(st, text[pos + 1], nsrc, nnm, <<>>)
          /\ UNCHANGED <<phase, nsegs, text, nsrc, nnm>>
Next == AddSegment \/ Close \/ Symbol
Spec == Init /\ [][Next]_vars

Done == phase = "run" /\ pos = Len(text)
Result == DFinish(st, nsrc, nnm, <<>>)

MachineIsDeclarative == Done => Result = DecodeD(text, nsrc, nnm)
FoldIsMachine == Done => Result = DecodeM(text, nsrc, nnm)
\* C06, stated on the text alone
HasForeign == \E i \in 1..Len(text) : text[i] \notin (0..63) \cup {COMMA, SEMI}
HasCutOrLong == \E i \in 1..Len(NonEmptySegs(text)) : DeclErr(NonEmptySegs(text)[i].ds)
HasBadArity == ~HasForeign /\ ~HasCutOrLong /\
               \E i \in 1..Len(NonEmptySegs(text)) : Len(DeclVals(NonEmptySegs(text)[i].ds)) \notin {1, 4, 5}
MalformedRejected == (Done /\ (HasForeign \/ HasCutOrLong \/ HasBadArity)) => Result.k = "err"
\* consequence: a successfully decoded map never holds an unresolvable index
IndicesResolve == (Done /\ Result.k = "ok") =>
    \A i \in 1..Len(Result.toks) : WellFormedTok(Result.toks[i], nsrc, nnm)
LinesNonDecreasing == (Done /\ Result.k = "ok") =>
    \A i \in 1..(Len(Result.toks) - 1) : Dl(Result.toks[i]) <= Dl(Result.toks[i + 1])
\* generated line = number of preceding ';'
LineIsSemiCount == phase = "build" \/ st.line = Cardinality({i \in 1..pos : text[i] = SEMI}) \/ st.err # ""

\* the exact-arithmetic decoder agrees with the small-integer machine wherever that one is defined
ExactAgrees == Done =>
    LET r == Result  v == DecodeV(text, nsrc, nnm) IN
    /\ (r.k = "err") = (v.k = "err")
    /\ (r.k = "ok" => v.k = "ok" /\ v.toks = [i \in DOMAIN r.toks |-> VOfTok(r.toks[i])])
EmitCase == Done => PrintT("CASE " \o ToJson([op |-> "decode", text |-> text, nsrc |-> nsrc, nnm |-> nnm]))
=============================================================================
