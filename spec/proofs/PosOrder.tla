------------------------------ MODULE PosOrder ------------------------------
(***************************************************************************)
(* The lexicographic order on generated positions used by every lookup      *)
(* (Mappings!PosLe / PosLt, copied verbatim) is a total preorder whose      *)
(* strict part is PosLt, and "greatest position not after q" is unique as   *)
(* a POSITION.  Proved with TLAPS (SMT back end): unbounded, unlike the TLC *)
(* runs.  `tlapm PosOrder.tla` must report all obligations proved.          *)
(***************************************************************************)
EXTENDS Integers

Position == Nat \X Nat
PosLe(p, q) == p[1] < q[1] \/ (p[1] = q[1] /\ p[2] <= q[2])
PosLt(p, q) == p[1] < q[1] \/ (p[1] = q[1] /\ p[2] < q[2])

THEOREM Reflexive == \A p \in Position : PosLe(p, p)
  BY DEF Position, PosLe

THEOREM Total == \A p, q \in Position : PosLe(p, q) \/ PosLe(q, p)
  BY DEF Position, PosLe

THEOREM Transitive == \A p, q, r \in Position : PosLe(p, q) /\ PosLe(q, r) => PosLe(p, r)
  BY DEF Position, PosLe

THEOREM Antisymmetric == \A p, q \in Position : PosLe(p, q) /\ PosLe(q, p) => p = q
  <1> SUFFICES ASSUME NEW p \in Position, NEW q \in Position, PosLe(p, q), PosLe(q, p) PROVE p = q
      OBVIOUS
  <1>1. p[1] = q[1] /\ p[2] = q[2]
      BY DEF Position, PosLe
  <1>2. p = <<p[1], p[2]>> /\ q = <<q[1], q[2]>>
      BY DEF Position
  <1> QED BY <1>1, <1>2

THEOREM StrictPart == \A p, q \in Position : PosLt(p, q) <=> (PosLe(p, q) /\ ~PosLe(q, p))
  BY DEF Position, PosLe, PosLt

\* the position a lookup must report is unique: two candidates that are both greatest coincide
THEOREM GreatestIsUnique ==
    \A S \in SUBSET Position : \A a, b \in S :
        (\A x \in S : PosLe(x, a)) /\ (\A x \in S : PosLe(x, b)) => a = b
  <1> SUFFICES ASSUME NEW S \in SUBSET Position, NEW a \in S, NEW b \in S,
                      \A x \in S : PosLe(x, a), \A x \in S : PosLe(x, b)
               PROVE a = b
      OBVIOUS
  <1>1. PosLe(a, b) /\ PosLe(b, a)
      OBVIOUS
  <1> QED BY <1>1, Antisymmetric
=============================================================================
