------------------------------ MODULE GlbSearch ------------------------------
(***************************************************************************)
(* The binary search of the lookup machine (MC_Lookup: Pick / Probe /       *)
(* Absent, the search part of utils::greatest_lower_bound) over a token     *)
(* list of ANY length whose positions are ordered, with an ARBITRARY probe  *)
(* inside the live window.  Proved with TLAPS (unbounded, unlike MC_Lookup):*)
(*   - the window invariant is inductive: everything left of the window is  *)
(*     before the query, everything right of it is after the query;         *)
(*   - when the window closes (Absent), lo is exactly the number of         *)
(*     positions before the query, so "lo - 1" is the greatest position not *)
(*     after it; when a probe hits the query, the hit is inside the list.   *)
(* Positions are generated (line, column) pairs with the lexicographic      *)
(* order of Mappings!PosLt (copied verbatim, as in PosOrder.tla).           *)
(***************************************************************************)
EXTENDS Integers, Sequences

Position == Nat \X Nat
PosLe(p, q) == p[1] < q[1] \/ (p[1] = q[1] /\ p[2] <= q[2])
PosLt(p, q) == p[1] < q[1] \/ (p[1] = q[1] /\ p[2] < q[2])

CONSTANTS ts,        \* the keys of the token list, in iteration order
          q          \* the query
ASSUME TsType == ts \in Seq(Position)
ASSUME QType == q \in Position
ASSUME TsSorted == \A i, j \in 1..Len(ts) : i <= j => PosLe(ts[i], ts[j])

VARIABLES lo, hi, phase, idx
vars == <<lo, hi, phase, idx>>

Init == lo = 0 /\ hi = Len(ts) /\ phase = "search" /\ idx = 0
Probe == /\ phase = "search" /\ lo < hi
         /\ \E mid \in lo..(hi - 1) :
              IF ts[mid + 1] = q THEN phase' = "walk" /\ idx' = mid /\ UNCHANGED <<lo, hi>>
              ELSE IF PosLt(ts[mid + 1], q) THEN lo' = mid + 1 /\ UNCHANGED <<phase, hi, idx>>
              ELSE hi' = mid /\ UNCHANGED <<phase, lo, idx>>
Absent == /\ phase = "search" /\ lo = hi
          /\ phase' = "done" /\ idx' = lo /\ UNCHANGED <<lo, hi>>
Next == Probe \/ Absent
Spec == Init /\ [][Next]_vars

TypeOK == /\ lo \in 0..Len(ts) /\ hi \in 0..Len(ts) /\ lo <= hi
          /\ phase \in {"search", "walk", "done"}
          /\ idx \in 0..Len(ts)
Window == /\ \A i \in 1..lo : PosLt(ts[i], q)
          /\ \A i \in (hi + 1)..Len(ts) : PosLt(q, ts[i])
Hit == phase = "walk" => idx + 1 \in 1..Len(ts) /\ ts[idx + 1] = q
Closed == phase = "done" => /\ idx = lo /\ lo = hi
Inv == TypeOK /\ Window /\ Hit /\ Closed

LEMMA LtLeTrans == \A a, b, c \in Position : PosLe(a, b) /\ PosLt(b, c) => PosLt(a, c)
  BY DEF Position, PosLe, PosLt
LEMMA LtLeTrans2 == \A a, b, c \in Position : PosLt(a, b) /\ PosLe(b, c) => PosLt(a, c)
  BY DEF Position, PosLe, PosLt
LEMMA Trichotomy == \A a, b \in Position : a = b \/ PosLt(a, b) \/ PosLt(b, a)
  <1> SUFFICES ASSUME NEW a \in Position, NEW b \in Position, ~PosLt(a, b), ~PosLt(b, a) PROVE a = b
      OBVIOUS
  <1>1. a[1] = b[1] /\ a[2] = b[2]
      BY DEF Position, PosLt
  <1>2. a = <<a[1], a[2]>> /\ b = <<b[1], b[2]>>
      BY DEF Position
  <1> QED BY <1>1, <1>2

LEMMA ElemType == \A i \in 1..Len(ts) : ts[i] \in Position
  BY TsType

THEOREM InitInv == Init => Inv
  <1> SUFFICES ASSUME Init PROVE Inv OBVIOUS
  <1>1. Len(ts) \in Nat BY TsType
  <1> QED BY <1>1 DEF Init, Inv, TypeOK, Window, Hit, Closed

THEOREM NextInv == Inv /\ [Next]_vars => Inv'
  <1> SUFFICES ASSUME Inv, [Next]_vars PROVE Inv' OBVIOUS
  <1>0. Len(ts) \in Nat BY TsType
  <1>1. CASE Probe
    <2>1. PICK mid \in lo..(hi - 1) :
              IF ts[mid + 1] = q THEN phase' = "walk" /\ idx' = mid /\ UNCHANGED <<lo, hi>>
              ELSE IF PosLt(ts[mid + 1], q) THEN lo' = mid + 1 /\ UNCHANGED <<phase, hi, idx>>
              ELSE hi' = mid /\ UNCHANGED <<phase, lo, idx>>
        BY <1>1 DEF Probe
    <2>2. mid \in 0..(Len(ts) - 1) /\ mid + 1 \in 1..Len(ts) /\ mid \in Int
        BY <1>0, <1>1 DEF Inv, TypeOK, Probe
    <2>3. ts[mid + 1] \in Position BY <2>2, ElemType
    <2>a. CASE ts[mid + 1] = q
        BY <2>1, <2>2, <2>a, <1>0, <1>1 DEF Inv, TypeOK, Window, Hit, Closed, Probe
    <2>b. CASE ts[mid + 1] # q /\ PosLt(ts[mid + 1], q)
      <3>1. lo' = mid + 1 /\ hi' = hi /\ phase' = phase /\ idx' = idx BY <2>1, <2>b
      <3>2. \A i \in 1..(mid + 1) : PosLt(ts[i], q)
        <4> SUFFICES ASSUME NEW i \in 1..(mid + 1) PROVE PosLt(ts[i], q) OBVIOUS
        <4>1. i \in 1..Len(ts) /\ i <= mid + 1 BY <2>2, <1>0
        <4>2. PosLe(ts[i], ts[mid + 1]) BY <4>1, <2>2, TsSorted
        <4>3. ts[i] \in Position BY <4>1, ElemType
        <4> QED BY <4>2, <4>3, <2>3, <2>b, QType, LtLeTrans
      <3> QED BY <3>1, <3>2, <2>2, <1>0, <1>1 DEF Inv, TypeOK, Window, Hit, Closed, Probe
    <2>c. CASE ts[mid + 1] # q /\ ~PosLt(ts[mid + 1], q)
      <3>1. hi' = mid /\ lo' = lo /\ phase' = phase /\ idx' = idx BY <2>1, <2>c
      <3>2. PosLt(q, ts[mid + 1]) BY <2>c, <2>3, QType, Trichotomy
      <3>3. \A i \in (mid + 1)..Len(ts) : PosLt(q, ts[i])
        <4> SUFFICES ASSUME NEW i \in (mid + 1)..Len(ts) PROVE PosLt(q, ts[i]) OBVIOUS
        <4>1. i \in 1..Len(ts) /\ mid + 1 <= i BY <2>2, <1>0
        <4>2. PosLe(ts[mid + 1], ts[i]) BY <4>1, <2>2, TsSorted
        <4>3. ts[i] \in Position BY <4>1, ElemType
        <4> QED BY <4>2, <4>3, <2>3, <3>2, QType, LtLeTrans2
      <3> QED BY <3>1, <3>3, <2>2, <1>0, <1>1 DEF Inv, TypeOK, Window, Hit, Closed, Probe
    <2> QED BY <2>a, <2>b, <2>c
  <1>2. CASE Absent
    BY <1>2, <1>0 DEF Absent, Inv, TypeOK, Window, Hit, Closed
  <1>3. CASE UNCHANGED vars
    BY <1>3 DEF vars, Inv, TypeOK, Window, Hit, Closed
  <1> QED BY <1>1, <1>2, <1>3 DEF Next

\* what the closed window means: lo is the number of positions before the query, every one of them is among the
\* first lo, and nothing after them is; so the token before the insertion index is the greatest not after q
THEOREM ClosedWindowIsInsertionIndex ==
    Inv /\ phase = "done" =>
        /\ \A i \in 1..Len(ts) : (i <= idx <=> PosLt(ts[i], q))
        /\ \A i \in 1..Len(ts) : ts[i] # q
  <1> SUFFICES ASSUME Inv, phase = "done" PROVE /\ \A i \in 1..Len(ts) : (i <= idx <=> PosLt(ts[i], q))
                                                   /\ \A i \in 1..Len(ts) : ts[i] # q
      OBVIOUS
  <1>0. Len(ts) \in Nat BY TsType
  <1>1. idx = lo /\ lo = hi /\ lo \in 0..Len(ts) BY DEF Inv, Closed, TypeOK
  <1>2. \A i \in 1..Len(ts) : i <= idx => PosLt(ts[i], q) BY <1>0, <1>1 DEF Inv, Window
  <1>3. \A i \in 1..Len(ts) : i > idx => PosLt(q, ts[i]) BY <1>0, <1>1 DEF Inv, Window
  <1>4. \A a \in Position : ~(PosLt(a, q) /\ PosLt(q, a)) BY QType DEF Position, PosLt
  <1>5. \A a \in Position : PosLt(a, q) \/ PosLt(q, a) => a # q BY QType DEF Position, PosLt
  <1> QED BY <1>0, <1>1, <1>2, <1>3, <1>4, <1>5, ElemType
=============================================================================
