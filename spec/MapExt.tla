------------------------------- MODULE MapExt -------------------------------
(***************************************************************************)
(* Behaviour of the map API BEYOND the listed properties, specified as      *)
(* found in the tree (extension E01; judged by Trace_E01, reported as       *)
(* EXT-MISMATCH, never as a VIOLATION of a listed property).                *)
(*   - TokenIter::seek / next                                               *)
(*   - remove_names, set_file, set_debug_id and their persistence           *)
(*   - Token ordering (Ord compares resolved strings, Eq compares raw ids)  *)
(*   - RAM-bundle extras of index maps (x_facebook_offsets,                 *)
(*     x_metro_module_paths, is_for_ram_bundle)                             *)
(* Two behaviours are recorded as named DEVIATIONS from what a reader of    *)
(* the API documentation would expect; they are what the code does.         *)
(***************************************************************************)
EXTENDS MapModel

(* ------------------------------- seek ---------------------------------- *)
\* 0-based index the lookup REPORTS for query q (GlbResults is 1-based, 0 = none):
\* exact hit: first token at q;  inexact hit: the insertion index, i.e. one past the token returned
\* DEVIATION SeekSkipsOneOnInexactHit: seek sets next = reported + 1, so after an inexact hit the
\* iterator continues with the SECOND token after the position, skipping the first one.
Reported(ts, q) == LET hits == {i \in DOMAIN ts : Pos(ts[i]) = q} IN
                   IF hits # {} THEN MinOf(hits) - 1
                   ELSE Cardinality({i \in DOMAIN ts : PosLt(Pos(ts[i]), q)})
SeekFound(ts, q) == Cands(ts, q) # {}
\* what next() yields after seek(q): <<>> or <<token>>
NextAfterSeek(ts, q) ==
    IF ~SeekFound(ts, q) THEN (IF ts = <<>> THEN <<>> ELSE <<ts[1]>>)      \* iterator untouched: still at the start
    ELSE LET n == Reported(ts, q) + 2 IN                                    \* 1-based index of next_idx = reported + 1
         IF n <= Len(ts) THEN <<ts[n]>> ELSE <<>>
\* what a reader would expect: the token right after the one the lookup returned
ExpectedNextAfterSeek(ts, q) ==
    LET c == Cands(ts, q)  hits == {i \in DOMAIN ts : Pos(ts[i]) = q} IN
    IF c = {} THEN <<>>
    ELSE LET i == IF hits # {} THEN MinOf(hits) ELSE CHOOSE x \in c : \A y \in c : y <= x   \* index of the token the lookup returns
         IN IF i + 1 <= Len(ts) THEN <<ts[i + 1]>> ELSE <<>>
SeekDeviates(ts, q) == SeekFound(ts, q) /\ NextAfterSeek(ts, q) # ExpectedNextAfterSeek(ts, q)

(* ------------------------- setters on a map ---------------------------- *)
\* p: projection before, o: projection after the call and after a save/load cycle
RemoveNamesOK(p, o) ==
    /\ o.names = <<>>
    /\ Len(o.toks) = Len(p.toks)
    /\ \A i \in DOMAIN p.toks : Pos(o.toks[i]) = Pos(p.toks[i]) /\ Src(o.toks[i]) = Src(p.toks[i])
    /\ o.sources = p.sources
\* after remove_names + save/load no token has a name any more (the writer drops unresolvable names)
RemoveNamesPersisted(o2) == o2.names = <<>> /\ \A i \in DOMAIN o2.toks : Nm(o2.toks[i]) = -1
SetFileOK(f, o, o2) == o.file = f /\ o2.file = f
SetDebugIdOK(d, o, o2) == o.debug_id = d /\ o2.debug_id = d

(* ---------------------------- token ordering --------------------------- *)
\* a, b: resolved tokens [dl, dc, src (<<>>/<<string>>), sl, sc, nm (<<>>/<<string>>), rg, raw]
\* Eq compares raw ids; Ord compares the resolved view field by field.  The harness logs cmp as -1/0/1.
OptLe(x, y) == x = <<>> \/ (y # <<>>)          \* None sorts before Some; strings are compared by the harness
EqOK(a, b, eq) == eq = (a.raw = b.raw)
\* the resolved key is equal => Ord says Equal, even if the raw ids differ (DEVIATION-free: documented)
OrdConsistent(a, b, cmp) ==
    /\ (a.dl # b.dl => cmp = (IF a.dl < b.dl THEN -1 ELSE 1))
    /\ ((a.dl = b.dl /\ a.dc # b.dc) => cmp = (IF a.dc < b.dc THEN -1 ELSE 1))
    /\ ((a.dl = b.dl /\ a.dc = b.dc /\ a.src = b.src /\ a.sl = b.sl /\ a.sc = b.sc /\ a.nm = b.nm /\ a.rg = b.rg) => cmp = 0)

(* ---------------------- RAM-bundle extras of index maps ---------------- *)
\* d: abstract index document with xfo / xmp;  o: accessors after decode;  o2: after a save/load cycle
ExtrasDecoded(d, o) ==
    /\ o.xfo = d.xfo /\ o.xmp = d.xmp
    /\ o.for_ram_bundle = (Has(d.xfo) /\ Has(d.xmp))
\* DEVIATION IndexExtrasNotSerialised: to_writer of an index map writes neither key, so both are gone after a cycle
ExtrasAfterCycle(o2) == o2.xfo = <<>> /\ o2.xmp = <<>> /\ ~o2.for_ram_bundle
(* --------------------------- token as text ----------------------------- *)
\* a = [dl, dc, src, sl, sc, nm, rg, raw]: the RESOLVED view of a token (strings, not ids)
\* Display: "source:line:col" plus " name=..." when the token has a name; a token without a source prints
\* "<unknown>"; the alternate form adds the generated position and a range marker; Debug wraps the alternate form.
Render(a) == (IF a.src = <<>> THEN "<unknown>" ELSE a.src[1]) \o ":" \o ToString(a.sl) \o ":" \o ToString(a.sc)
             \o (IF a.nm = <<>> THEN "" ELSE " name=" \o a.nm[1])
RenderAlt(a) == Render(a) \o " (" \o ToString(a.dl) \o ":" \o ToString(a.dc) \o ")" \o (IF a.rg THEN " (range)" ELSE "")
RenderDebug(a) == "<Token " \o RenderAlt(a) \o ">"
RenderJudged(a) == \A n \in {a.dl, a.dc, a.sl, a.sc} : n < 1073741824        \* larger numbers are logged clamped
=============================================================================
