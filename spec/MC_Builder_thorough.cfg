CONSTANTS
  Depth = 3
  MapDepth = 2
  Narrow = TRUE
SPECIFICATION Spec
INVARIANTS InterningTablesDistinct IdsStable TokensAlwaysResolve JoinIdempotentOnAbsolute EmitCase
CHECK_DEADLOCK FALSE
