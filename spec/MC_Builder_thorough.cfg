CONSTANTS
  Depth = 3
  MapDepth = 2
SPECIFICATION Spec
INVARIANTS InterningTablesDistinct IdsStable TokensAlwaysResolve JoinIdempotentOnAbsolute EmitCase
CHECK_DEADLOCK FALSE
