----------------------------- MODULE MC_Detector -----------------------------
(* Files assembled from line kinds (code, both comment forms, indented and   *)
(* mid-line look-alikes, empty URL, URL with surrounding blanks) x line      *)
(* endings x final newline or not.                                           *)
EXTENDS Detector, Json
CONSTANTS MaxLines
U == <<97, 46, 109>>                                  \* "a.m"
Kinds == { <<120, 59>>,                               \* code "x;"
           REF \o U, LEGACY \o U,
           <<32>> \o REF \o U,                         \* indented
           <<120>> \o REF \o U,                        \* mid-line look-alike
           REF,                                        \* empty URL
           REF \o <<32, 9>> \o U \o <<32>>,            \* URL with surrounding blanks
           <<>> }                                      \* empty line
Ends == { <<10>>, <<13, 10>> }
VARIABLES phase, file, n
vars == <<phase, file, n>>
Init == phase = "build" /\ file = <<>> /\ n = 0
AddLine == /\ phase = "build" /\ n < MaxLines
           /\ \E k \in Kinds, e \in Ends \cup {<<>>} :
                 /\ (e = <<>> => TRUE)
                 /\ file' = file \o k \o e
                 /\ phase' = IF e = <<>> THEN "done" ELSE "build"
           /\ n' = n + 1
Stop == phase = "build" /\ n >= 1 /\ phase' = "done" /\ UNCHANGED <<file, n>>
Next == AddLine \/ Stop
Spec == Init /\ [][Next]_vars
ScanIsDeclarative == phase = "done" => LocateM(file) = Locate(file)
UrlIsTrimmed == (phase = "done" /\ Locate(file) # <<>>) =>
    LET u == Locate(file)[1].url IN u = <<>> \/ (u[1] \notin WS /\ u[Len(u)] \notin WS)
PreambleAccepted == WRITER_PREAMBLE \in ACCEPTED_PREAMBLES
EmitCase == phase = "done" => PrintT("CASE " \o ToJson([op |-> "locate", file |-> file]))
=============================================================================
