CONSTANTS
  Threads = {1,2,3}
  Algo = "split"
  Texts <- T_small
  CallPool <- Pool_small
  MaxCalls = 1
SPECIFICATION Spec
INVARIANTS EmitCase
CHECK_DEADLOCK FALSE
