--------------------------- MODULE MC_NameResolve ---------------------------
(* Single-line programs assembled from fragments (keyword, blanks, ASCII,    *)
(* 2-byte, 3-byte and astral identifiers, punctuation, a joiner), tokens on  *)
(* every fragment start, every landing token x candidate names.  Checks the  *)
(* walk (one step per token, as the code iterates) against FirstPair.        *)
EXTENDS NameResolve, Json
CONSTANTS MaxFrags, Wide
\* Wide = FALSE (quick tier): one representative per character class; Wide = TRUE adds second representatives
FragsNarrow == { FUNCTION, <<32>>, <<97>>, <<233>>, <<119987, 97>>, <<40>>, <<97, 8205, 98>>, <<8472>>, <<97, 2366>> }
NamesNarrow == { <<97>>, <<233>>, <<119987, 97>>, <<97, 8205, 98>>, <<97, 46, 98>>, <<49, 97>>, <<8472>>, <<97, 2366>>, <<2366, 97>> }
FragsWide == { FUNCTION, <<32>>, <<97>>, <<98, 36>>, <<233>>, <<119987, 97>>, <<15247>>, <<40>>, <<97, 8205, 98>>, <<123>>,
           <<8472>>, <<97, 2366>> }            \* an Other_ID_Start character; a letter followed by a combining mark
NamesWide == { <<97>>, <<98, 36>>, <<233>>, <<119987, 97>>, <<15247>>, <<97, 8205, 98>>, <<97, 46, 98>>, <<49, 97>>,
           <<8472>>, <<97, 2366>>, <<2366, 97>> }      \* the last one starts with a mark: not an identifier
Frags == IF Wide THEN FragsWide ELSE FragsNarrow
Names == IF Wide THEN NamesWide ELSE NamesNarrow
VARIABLES phase, line, starts, i0, name, k, found
vars == <<phase, line, starts, i0, name, k, found>>
Units(s) == FoldLeft(LAMBDA a, c : a + U16w(c), 0, s)
Toks == [i \in DOMAIN starts |-> Tok(0, starts[i], 0, i, 0, i - 1, 0)]     \* token i carries name index i-1
NamesTab == [i \in DOMAIN starts |-> "orig" \o ToString(i)]
Init == phase = "build" /\ line = <<>> /\ starts = <<>> /\ i0 = 0 /\ name = <<>> /\ k = 0 /\ found = -1
AddFrag == /\ phase = "build" /\ Len(starts) < MaxFrags
           /\ \E f \in Frags : line' = line \o f /\ starts' = Append(starts, Units(line))
           /\ UNCHANGED <<phase, i0, name, k, found>>
Ask == /\ phase = "build" /\ Len(starts) >= 1
       /\ \E n \in Names : name' = n
       /\ i0' = Len(starts) /\ phase' = "walk" /\ UNCHANGED <<line, starts, k, found>>
\* the code's loop: look at the token k steps back and at the one before it
Walk == /\ phase = "walk" /\ found = -1 /\ k <= i0 - 2
        /\ IF TextOf(<<line>>, Toks[i0 - k]) = <<name>> /\ TextOf(<<line>>, Toks[i0 - k - 1]) = <<FUNCTION>>
           THEN found' = k /\ UNCHANGED k
           ELSE k' = k + 1 /\ UNCHANGED found
        /\ UNCHANGED <<phase, line, starts, i0, name>>
End == /\ phase = "walk" /\ (found # -1 \/ k > i0 - 2) /\ phase' = "done"
       /\ UNCHANGED <<line, starts, i0, name, k, found>>
Next == AddFrag \/ Ask \/ Walk \/ End
Spec == Init /\ [][Next]_vars
WalkFindsFirstPair == phase = "done" => found = FirstPair(<<line>>, Toks, i0, name)
NonIdentifierNeverResolves == phase = "done" =>
    (~ValidIdent(name) => ResolveOK(<<line>>, Toks, NamesTab, <<0, starts[i0]>>, name, <<>>))
EmitCase == phase = "done" => PrintT("CASE " \o ToJson([op |-> "resolve", lines |-> <<line>>, starts |-> starts, name |-> name]))
=============================================================================
