--------------------------- MODULE SourceViewConc ---------------------------
(***************************************************************************)
(* A SourceView shared between threads (C16).  Shared state: the mutex      *)
(* (lock, poisoned), the atomic progress counter proc and the line cache.   *)
(* Each thread runs a list of calls; one action per step of the code:       *)
(*   Begin   lock, cached-line check (hit: answer)                          *)
(*   Fin     the finished check (proc > Len(text): nothing more to index)   *)
(*   Acq     take the lock for indexing                                     *)
(*   Loop    one iteration of the indexing loop (slicing text[proc..])      *)
(*   Cnt     line_count's final "lock and read the length"                  *)
(* Algo = "split" is the algorithm of the pinned commit: the lock is        *)
(* RELEASED between the cached-line check and the indexing loop, and the    *)
(* finished check runs without it.  Algo = "single" does all of it under    *)
(* one acquisition.  Slicing at proc > Len(text) is the explicit Panic      *)
(* transition, which poisons the mutex for every later caller.              *)
(* A thread may CLONE the view ("clone" call): it goes on with a private   *)
(* copy whose index starts empty (what the code's Clone does); being used by *)
(* one thread only, the copy steps atomically through SourceView!Apply and   *)
(* never touches the shared lock.                                           *)
(* The relaxed load is modelled as reading the current value (weak-memory   *)
(* reorderings are not explored).                                           *)
(***************************************************************************)
EXTENDS SourceView, TLC, Json

CONSTANTS Threads, Algo, Texts, CallPool, MaxCalls

VARIABLES text, calls, lock, poisoned, proc, cache, pc, k, results, sched, phase, own, pend
vars == <<text, calls, lock, poisoned, proc, cache, pc, k, results, sched, phase, own, pend>>
\* pend: <<>> or <<line>> -- the line the lock holder has cut off (progress counter already moved) but not yet pushed
\* own[t]: <<>> while thread t uses the shared view, <<index state>> once it has cloned it

FREE == 0
Idx(c) == IF c.op = "line_count" THEN MAXU ELSE c.i
Cur(t) == calls[t][k[t]]
Shared == [proc |-> proc, cache |-> cache]

Init == /\ phase = "build" /\ text \in Texts
        /\ calls = [t \in Threads |-> <<>>]
        /\ lock = FREE /\ poisoned = FALSE /\ proc = 0 /\ cache = <<>>
        /\ pc = [t \in Threads |-> "idle"] /\ k = [t \in Threads |-> 1]
        /\ results = [t \in Threads |-> <<>>] /\ sched = <<>>
        /\ own = [t \in Threads |-> <<>>] /\ pend = <<>>
\* TLC chooses each thread's program
AddCall == /\ phase = "build"
           /\ \E t \in Threads, c \in CallPool :
                 /\ Len(calls[t]) < MaxCalls
                 /\ (\A u \in Threads : u < t => Len(calls[u]) >= 1)
                 /\ calls' = [calls EXCEPT ![t] = Append(@, c)]
           /\ UNCHANGED <<text, lock, poisoned, proc, cache, pc, k, results, sched, phase, own, pend>>
Go == /\ phase = "build" /\ \A t \in Threads : Len(calls[t]) >= 1
      /\ phase' = "run"
      /\ UNCHANGED <<text, calls, lock, poisoned, proc, cache, pc, k, results, sched, own, pend>>

\* record the answer of thread t's current call and move to its next call
Record(t, rec) == /\ results' = [results EXCEPT ![t] = Append(@, rec)]
                /\ k' = [k EXCEPT ![t] = @ + 1]
                /\ pc' = [pc EXCEPT ![t] = "idle"]
Answer(t, r) == Record(t, [p |-> FALSE, v |-> r])
AnswerPanic(t) == Record(t, [p |-> TRUE, v |-> <<>>])
\* what get_line / line_count return when the index has nothing (more) for the request
NoneOrCount(t) == IF Cur(t).op = "line_count" THEN "cnt" ELSE "none"

\* the clone call itself, and every call of a thread that works on its private copy
Private(t) ==
    /\ pc[t] = "idle" /\ k[t] <= Len(calls[t])
    /\ (Cur(t).op = "clone" \/ own[t] # <<>>)
    /\ IF Cur(t).op = "clone"
       THEN own' = [own EXCEPT ![t] = << SvInit >>] /\ Answer(t, 0)
       ELSE LET r == Apply(own[t][1], text, Cur(t)) IN
            own' = [own EXCEPT ![t] = << r.st >>] /\ Answer(t, r.ret)
    /\ UNCHANGED <<lock, poisoned, proc, cache, pend>>

Begin(t) ==
    /\ pc[t] = "idle" /\ k[t] <= Len(calls[t]) /\ lock = FREE
    /\ Cur(t).op # "clone" /\ own[t] = <<>>
    /\ UNCHANGED <<own, pend>>
    /\ IF poisoned THEN AnswerPanic(t) /\ UNCHANGED <<lock, poisoned, proc, cache>>
       ELSE IF Idx(Cur(t)) < Len(cache)
            THEN Answer(t, <<cache[Idx(Cur(t)) + 1]>>) /\ UNCHANGED <<lock, poisoned, proc, cache>>
       ELSE IF Algo = "split"
            THEN pc' = [pc EXCEPT ![t] = "fin"] /\ UNCHANGED <<lock, poisoned, proc, cache, results, k>>
       ELSE IF proc > Len(text)                                  \* "single": finished check under the same lock
            THEN (IF Cur(t).op = "line_count" THEN Answer(t, Len(cache)) ELSE Answer(t, <<>>))
                 /\ UNCHANGED <<lock, poisoned, proc, cache>>
       ELSE lock' = t /\ pc' = [pc EXCEPT ![t] = "loop"] /\ UNCHANGED <<poisoned, proc, cache, results, k>>

Fin(t) ==
    /\ pc[t] = "fin"
    /\ UNCHANGED <<own, pend>>
    /\ IF proc > Len(text)
       THEN IF Cur(t).op = "line_count"
            THEN pc' = [pc EXCEPT ![t] = "cnt"] /\ UNCHANGED <<results, k>>
            ELSE Answer(t, <<>>)
       ELSE pc' = [pc EXCEPT ![t] = "acq"] /\ UNCHANGED <<results, k>>
    /\ UNCHANGED <<lock, poisoned, proc, cache>>

Acq(t) ==
    /\ pc[t] = "acq" /\ lock = FREE
    /\ UNCHANGED <<own, pend>>
    /\ IF poisoned THEN AnswerPanic(t) /\ UNCHANGED <<lock, poisoned, proc, cache>>
       ELSE lock' = t /\ pc' = [pc EXCEPT ![t] = "loop"] /\ UNCHANGED <<poisoned, proc, cache, results, k>>

\* One round of the indexing loop is TWO writes, as in the code: first the progress counter moves past the line
\* (LoopAdvance), then the line is pushed onto the table (LoopPush) and the round's checks run.  Between the two the shared
\* state is HALF UPDATED (proc ahead of cache); it is never observable in the algorithms modelled here because the holder
\* keeps the lock -- hook H1's fourth yield point parks a real thread exactly there, so a lock-free reader added to the
\* code would be caught by the replayed schedules.
Loop(t) ==
    /\ pc[t] = "loop" /\ lock = t
    /\ UNCHANGED own
    /\ IF pend = <<>>
       THEN IF proc > Len(text)
            THEN \* text[proc..] is out of range: panic while holding the guard => the mutex is poisoned
                 /\ poisoned' = TRUE /\ lock' = FREE /\ AnswerPanic(t) /\ UNCHANGED <<proc, cache, pend>>
            ELSE LET s2 == IndexStep(Shared, text) IN
                 /\ proc' = s2.proc /\ pend' = << s2.cache[Len(s2.cache)] >>
                 /\ UNCHANGED <<cache, lock, pc, results, k, poisoned>>
       ELSE LET c2 == Append(cache, pend[1]) IN
            /\ cache' = c2 /\ pend' = <<>> /\ UNCHANGED proc
            /\ IF Idx(Cur(t)) < Len(c2)
               THEN Answer(t, <<c2[Idx(Cur(t)) + 1]>>) /\ lock' = FREE
               ELSE IF proc > Len(text)
                    THEN IF Cur(t).op = "line_count"
                         THEN (IF Algo = "split"
                               THEN pc' = [pc EXCEPT ![t] = "cnt"] /\ UNCHANGED <<results, k>>
                               ELSE Answer(t, Len(c2)))
                              /\ lock' = FREE
                         ELSE Answer(t, <<>>) /\ lock' = FREE
                    ELSE UNCHANGED <<lock, pc, results, k>>
            /\ UNCHANGED poisoned

Cnt(t) ==
    /\ pc[t] = "cnt" /\ lock = FREE
    /\ UNCHANGED <<own, pend>>
    /\ IF poisoned THEN AnswerPanic(t) ELSE Answer(t, Len(cache))
    /\ UNCHANGED <<lock, poisoned, proc, cache>>

Step(t) == phase = "run" /\ (Private(t) \/ Begin(t) \/ Fin(t) \/ Acq(t) \/ Loop(t) \/ Cnt(t))
                         /\ sched' = Append(sched, t) /\ UNCHANGED <<text, calls, phase>>
Next == AddCall \/ Go \/ \E t \in Threads : Step(t)
Spec == Init /\ [][Next]_vars

AllDone == phase = "run" /\ \A t \in Threads : k[t] > Len(calls[t])
\* every call returns what the same call returns on a fresh view used by a single thread
Correct == \A t \in Threads : \A j \in 1..Len(results[t]) :
               results[t][j].p \/ results[t][j].v = Decl(text, calls[t][j])
NoPanic == ~poisoned /\ \A t \in Threads : \A j \in 1..Len(results[t]) : ~results[t][j].p
Safe == Correct /\ NoPanic
\* the lock is only ever held inside the indexing loop, whose holder can always step: no deadlock
LockDiscipline == lock # FREE => pc[lock] = "loop"
NeedsLock(t) == pc[t] \in {"idle", "acq", "cnt"} /\ ~(pc[t] = "idle" /\ k[t] <= Len(calls[t]) /\ (Cur(t).op = "clone" \/ own[t] # <<>>))
Progress == (phase = "run" /\ ~AllDone) =>
                \E t \in Threads : k[t] <= Len(calls[t]) /\ ~(NeedsLock(t) /\ lock # FREE)
IndexOK == /\ poisoned \/ (IsPrefix(cache, Lines(text)) /\ ((proc > Len(text) /\ pend = <<>>) => Len(cache) = Len(Lines(text))))
           /\ \A t \in Threads : own[t] # <<>> => IndexConsistent(own[t][1], text)      \* private copies too

\* the half-updated state exists only inside the critical section
HalfUpdatedOnlyUnderLock == pend # <<>> => (lock # FREE /\ pc[lock] = "loop")
View == <<text, calls, lock, poisoned, proc, cache, pc, k, results, phase, own, pend>>   \* everything but the schedule
EmitCase == AllDone => PrintT("CASE " \o ToJson([op |-> "conc", text |-> text,
                                   calls |-> [i \in 1..Cardinality(Threads) |-> calls[i]], sched |-> sched]))
=============================================================================
