CONSTANTS
  MaxSecs = 2
  Nested = FALSE
SPECIFICATION Spec
INVARIANTS LookupAndFlattenAgree UnresolvedSectionIsError FlattenedIsOrdered FlattenKeepsAllTokens EmitCase
CHECK_DEADLOCK FALSE
