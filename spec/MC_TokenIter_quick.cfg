CONSTANTS
  N = 4
  MaxSteps = 3
  MaxArg = 2
SPECIFICATION Spec
INVARIANTS MachineRefinesClosedForm YieldedIncreasing PlainNextIsIndexing YieldedSorted EmitCase
PROPERTIES CursorMonotone
CHECK_DEADLOCK FALSE
