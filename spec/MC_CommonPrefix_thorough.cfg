CONSTANTS
  MaxSrc = 4
SPECIFICATION Spec
INVARIANTS IsPrefixOfAll OnComponentBoundary SplitRejoins DeviationNeedsTotalMismatch EmitCase
CHECK_DEADLOCK FALSE
