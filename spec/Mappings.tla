----------------------------- MODULE Mappings -----------------------------
(***************************************************************************)
(* The "mappings" wire format of Source Map v3 and its "rangeMappings"      *)
(* companion, as state machines over a symbol stream.                       *)
(*                                                                          *)
(* Symbols: 0..63 base64 digit, 64 = ',', 65 = ';', >= 100 foreign byte.    *)
(* A token is the tuple <<dl, dc, src, sl, sc, name, rg>> (generated line,  *)
(* generated column, source index or -1, original line, original column,    *)
(* name index or -1, range flag 0/1).                                       *)
(*                                                                          *)
(*  - DecodeM : the decoder MACHINE, one step per input symbol, with the    *)
(*              six running accumulators and explicit error transitions.    *)
(*  - DecodeD : the DECLARATIVE reading (split at ';' and ',', prefix sums).*)
(*  - Encode  : the encoder machine, one step per token.                    *)
(*  - RangeBits / range decoding.                                           *)
(* MC_Mappings checks DecodeM = DecodeD, Decode(Encode(ts)) = Dedup(ts) and *)
(* the "malformed => error" rules on a bounded universe.                    *)
(***************************************************************************)
EXTENDS Vlq, TLC

COMMA == 64
SEMI  == 65

Tok(dl, dc, src, sl, sc, nm, rg) == <<dl, dc, src, sl, sc, nm, rg>>
Dl(t) == t[1]
Dc(t) == t[2]
Src(t) == t[3]
Sl(t) == t[4]
Sc(t) == t[5]
Nm(t) == t[6]
Rg(t) == t[7]
Pos(t) == <<t[1], t[2]>>

PosLe(p, q) == p[1] < q[1] \/ (p[1] = q[1] /\ p[2] <= q[2])
PosLt(p, q) == p[1] < q[1] \/ (p[1] = q[1] /\ p[2] < q[2])
Sorted(ts) == \A i \in 1..(Len(ts) - 1) : PosLe(Pos(ts[i]), Pos(ts[i + 1]))

\* a token is well formed w.r.t. array sizes: no source and no name, or an in-range
\* source and optionally an in-range name
WellFormedTok(t, nsrc, nnm) ==
    /\ Dl(t) >= 0 /\ Dc(t) >= 0 /\ Sl(t) >= 0 /\ Sc(t) >= 0 /\ Rg(t) \in {0, 1}
    /\ \/ Src(t) = -1 /\ Nm(t) = -1
       \/ Src(t) \in 0..(nsrc - 1) /\ (Nm(t) = -1 \/ Nm(t) \in 0..(nnm - 1))

\* exact consecutive duplicates removed (what the writer emits)
DedupSeq(ts) ==
    LET keep == {i \in 1..Len(ts) : i = 1 \/ ts[i] # ts[i - 1]} IN
    [n \in 1..Cardinality(keep) |-> ts[SetToSortSeq(keep, <)[n]]]

(* =========================== decoder machine =========================== *)
\* s : machine state.  Original line/column of a 1-field token are reported as
\* the running values (observable only for tokens that have a source).
\* Flags: big = a position field was beyond TLC's 32-bit integers (the result is then
\* not evaluated, only the error rules are), neg = a running position went negative
\* (the format says nothing about that; only "no panic" is required).
DInit == [line |-> 0, dc |-> 0, src |-> 0, sl |-> 0, sc |-> 0, nm |-> 0,
          seg |-> DecInit, segidx |-> 0, out |-> <<>>, err |-> "", big |-> FALSE, neg |-> FALSE]

AllSmall(vs) == \A i \in DOMAIN vs : Small(vs[i])
\* a source / name delta of 2^30 or more leaves the declared array whatever the running
\* index is (arrays have fewer than 2^30 entries): an arithmetic-free rejection rule
Huge(v) == ~Small(v)
IntOr0(v) == IF Small(v) THEN ToInt(v) ELSE 0

\* close the open segment (on ',', ';' or end of text); rline = range bits of this line
CloseSeg(s, nsrc, nnm, rline) ==
    IF s.err # "" THEN s
    ELSE IF s.seg.err # "" THEN [s EXCEPT !.err = s.seg.err]
    ELSE IF s.seg.nd > 0 THEN [s EXCEPT !.err = "leftover"]
    ELSE IF s.seg.out = <<>> THEN s                                \* empty segment: skipped
    ELSE LET f == s.seg.out  n == Len(s.seg.out) IN
         IF n \notin {1, 4, 5} THEN [s EXCEPT !.err = "arity"]
         ELSE IF n >= 4 /\ Huge(f[2]) THEN [s EXCEPT !.err = "source"]
         ELSE IF n = 5 /\ Huge(f[5]) THEN [s EXCEPT !.err = "name"]
         ELSE
         LET posbig == ~Small(f[1]) \/ (n >= 4 /\ (~Small(f[3]) \/ ~Small(f[4])))
             dc2  == s.dc + IntOr0(f[1])
             src2 == IF n >= 4 THEN s.src + ToInt(f[2]) ELSE s.src
             sl2  == IF n >= 4 THEN s.sl + IntOr0(f[3]) ELSE s.sl
             sc2  == IF n >= 4 THEN s.sc + IntOr0(f[4]) ELSE s.sc
             nm2  == IF n = 5 THEN s.nm + ToInt(f[5]) ELSE s.nm
             rg   == IF s.segidx + 1 <= Len(rline) THEN rline[s.segidx + 1] ELSE 0
         IN
         IF n >= 4 /\ (src2 < 0 \/ src2 >= nsrc) THEN [s EXCEPT !.err = "source"]
         ELSE IF n = 5 /\ (nm2 < 0 \/ nm2 >= nnm) THEN [s EXCEPT !.err = "name"]
         ELSE IF s.big \/ posbig THEN [s EXCEPT !.big = TRUE, !.src = src2, !.nm = nm2]
         ELSE [s EXCEPT !.dc = dc2, !.src = src2, !.sl = sl2, !.sc = sc2, !.nm = nm2,
                        !.neg = s.neg \/ dc2 < 0 \/ sl2 < 0 \/ sc2 < 0,
                        !.out = Append(s.out, Tok(s.line, dc2,
                                                  IF n >= 4 THEN src2 ELSE -1, sl2, sc2,
                                                  IF n = 5 THEN nm2 ELSE -1, rg))]

\* rlines: per generated line, the sequence of range bits (possibly shorter than the line)
RLine(rlines, line) == IF line + 1 <= Len(rlines) THEN rlines[line + 1] ELSE <<>>

DStep(s, sym, nsrc, nnm, rlines) ==
    IF s.err # "" THEN s
    ELSE IF sym \in 0..63 THEN [s EXCEPT !.seg = DecStep(s.seg, sym)]
    ELSE IF sym = COMMA THEN
        LET c == CloseSeg(s, nsrc, nnm, RLine(rlines, s.line)) IN
        IF c.err # "" THEN c ELSE [c EXCEPT !.seg = DecInit, !.segidx = s.segidx + 1]
    ELSE IF sym = SEMI THEN
        LET c == CloseSeg(s, nsrc, nnm, RLine(rlines, s.line)) IN
        IF c.err # "" THEN c ELSE [c EXCEPT !.seg = DecInit, !.segidx = 0, !.line = s.line + 1, !.dc = 0]
    ELSE [s EXCEPT !.err = "foreign"]

DFinish(s, nsrc, nnm, rlines) ==
    LET c == CloseSeg(s, nsrc, nnm, RLine(rlines, s.line)) IN
    IF c.err # "" THEN [k |-> "err", toks |-> <<>>]
    ELSE IF c.big THEN [k |-> "big", toks |-> <<>>]
    ELSE IF c.neg THEN [k |-> "unspec", toks |-> <<>>]
    ELSE [k |-> "ok", toks |-> c.out]

DecodeR(text, nsrc, nnm, rlines) ==
    DFinish(FoldLeft(LAMBDA s, sym : DStep(s, sym, nsrc, nnm, rlines), DInit, text), nsrc, nnm, rlines)
DecodeM(text, nsrc, nnm) == DecodeR(text, nsrc, nnm, <<>>)

(* ========================= declarative reading ========================= *)
RECURSIVE SplitOn(_, _)
SplitOn(s, sep) ==
    LET idx == {i \in 1..Len(s) : s[i] = sep} IN
    IF idx = {} THEN << s >>
    ELSE LET i == CHOOSE j \in idx : \A k \in idx : j <= k IN
         << SubSeq(s, 1, i - 1) >> \o SplitOn(SubSeq(s, i + 1, Len(s)), sep)

\* all segments of the text in order, as records [line, idx, ds]
Segments(text) ==
    LET ls == SplitOn(text, SEMI) IN
    FoldLeft(LAMBDA acc, li :
                LET segs == SplitOn(ls[li], COMMA) IN
                acc \o [j \in 1..Len(segs) |-> [line |-> li - 1, idx |-> j - 1, ds |-> segs[j]]],
             <<>>, [i \in 1..Len(ls) |-> i])
NonEmptySegs(text) == SelectSeq(Segments(text), LAMBDA g : g.ds # <<>>)

SumTo(fs, n, k, minlen) ==   \* sum of field k over the first n segments that have at least minlen fields
    FoldLeft(LAMBDA acc, i : IF Len(fs[i]) >= minlen THEN acc + ToInt(fs[i][k]) ELSE acc, 0, [i \in 1..n |-> i])

\* declarative result: malformed anywhere => error (C06), independent of order
SegErr(g) == DeclErr(g.ds)
DeclResult(text, nsrc, nnm) ==
    LET gs == NonEmptySegs(text) IN
    IF \E i \in 1..Len(text) : text[i] \notin (0..63) \cup {COMMA, SEMI} THEN [k |-> "err", toks |-> <<>>]
    ELSE IF \E i \in 1..Len(gs) : SegErr(gs[i]) THEN [k |-> "err", toks |-> <<>>]
    ELSE
    LET fs == [i \in 1..Len(gs) |-> DeclVals(gs[i].ds)] IN
    IF \E i \in 1..Len(gs) : Len(fs[i]) \notin {1, 4, 5} THEN [k |-> "err", toks |-> <<>>]
    ELSE IF \E i \in 1..Len(gs) : (Len(fs[i]) >= 4 /\ Huge(fs[i][2])) \/ (Len(fs[i]) = 5 /\ Huge(fs[i][5]))
         THEN [k |-> "err", toks |-> <<>>]
    ELSE
    LET srcAt(i) == SumTo(fs, i, 2, 4)
        nmAt(i)  == SumTo(fs, i, 5, 5)
        badIdx == {i \in 1..Len(gs) : (Len(fs[i]) >= 4 /\ (srcAt(i) < 0 \/ srcAt(i) >= nsrc))
                                       \/ (Len(fs[i]) = 5 /\ (nmAt(i) < 0 \/ nmAt(i) >= nnm))}
    IN
    IF badIdx # {} THEN [k |-> "err", toks |-> <<>>]
    ELSE IF \E i \in 1..Len(gs) : ~AllSmall(fs[i]) THEN [k |-> "big", toks |-> <<>>]
    ELSE
    LET slAt(i)  == SumTo(fs, i, 3, 4)
        scAt(i)  == SumTo(fs, i, 4, 4)
        \* generated column: sum of first fields of the segments of the same line up to i
        dcAt(i)  == FoldLeft(LAMBDA acc, j : IF gs[j].line = gs[i].line THEN acc + ToInt(fs[j][1]) ELSE acc,
                             0, [j \in 1..i |-> j])
    IN
    IF \E i \in 1..Len(gs) : dcAt(i) < 0 \/ slAt(i) < 0 \/ scAt(i) < 0 THEN [k |-> "unspec", toks |-> <<>>]
    ELSE [k |-> "ok",
          toks |-> [i \in 1..Len(gs) |->
                      Tok(gs[i].line, dcAt(i),
                          IF Len(fs[i]) >= 4 THEN srcAt(i) ELSE -1, slAt(i), scAt(i),
                          IF Len(fs[i]) = 5 THEN nmAt(i) ELSE -1, 0)]]
DecodeD(text, nsrc, nnm) == DeclResult(text, nsrc, nnm)

(* =========================== encoder machine =========================== *)
EInit == [line |-> 0, dc |-> 0, src |-> 0, sl |-> 0, sc |-> 0, nm |-> 0, out |-> <<>>, n |-> 0, prev |-> <<>>]

Rep(x, n) == [i \in 1..n |-> x]
Delta(a, b) == Enc(FromInt(a - b))

\* one step per token (tokens are presented in map order)
EStep(e, t) ==
    LET newline == Dl(t) # e.line
        dup == ~newline /\ e.n > 0 /\ t = e.prev
    IN
    IF dup THEN [e EXCEPT !.n = e.n + 1, !.prev = t]                          \* SkipDuplicate
    ELSE
    LET sep == IF newline THEN Rep(SEMI, Dl(t) - e.line) ELSE IF e.n > 0 THEN <<COMMA>> ELSE <<>>
        dc0 == IF newline THEN 0 ELSE e.dc
        seg == Delta(Dc(t), dc0)
               \o (IF Src(t) # -1
                   THEN Delta(Src(t), e.src) \o Delta(Sl(t), e.sl) \o Delta(Sc(t), e.sc)
                        \o (IF Nm(t) # -1 THEN Delta(Nm(t), e.nm) ELSE <<>>)
                   ELSE <<>>)
    IN [line |-> Dl(t), dc |-> Dc(t),
        src |-> IF Src(t) # -1 THEN Src(t) ELSE e.src,
        sl  |-> IF Src(t) # -1 THEN Sl(t) ELSE e.sl,
        sc  |-> IF Src(t) # -1 THEN Sc(t) ELSE e.sc,
        nm  |-> IF Src(t) # -1 /\ Nm(t) # -1 THEN Nm(t) ELSE e.nm,
        out |-> e.out \o sep \o seg, n |-> e.n + 1, prev |-> t]

Encode(ts) == FoldLeft(EStep, EInit, ts).out

(* ============================ range mappings =========================== *)
\* The rangeMappings text: per generated line a little-endian bit field over the
\* SEGMENT INDEX within the line, 6 bits per base64 digit, lines joined by ';'.
Bits6(n) == << n % 2, (n \div 2) % 2, (n \div 4) % 2, (n \div 8) % 2, (n \div 16) % 2, (n \div 32) % 2 >>
RangeLineBits(ds) == FoldLeft(LAMBDA acc, d : acc \o Bits6(d), <<>>, ds)
\* rtext -> per line bit sequences;  a foreign symbol makes the whole text invalid
RangeValid(rtext) == \A i \in 1..Len(rtext) : rtext[i] \in 0..63 \/ rtext[i] = SEMI
RangeLines(rtext) == LET ls == SplitOn(rtext, SEMI) IN [i \in 1..Len(ls) |-> RangeLineBits(ls[i])]

\* writer side: flags of the EMITTED segments of each line -> text (or "absent")
FromBits6(g) == g[1] + 2*g[2] + 4*g[3] + 8*g[4] + 16*g[5] + 32*g[6]
Pad6(bs) == bs \o [i \in 1..((6 - (Len(bs) % 6)) % 6) |-> 0]
RECURSIVE Groups6(_)
Groups6(bs) == IF bs = <<>> THEN <<>> ELSE << FromBits6(SubSeq(bs, 1, 6)) >> \o Groups6(SubSeq(bs, 7, Len(bs)))
EncRangeLine(flags) == LET t == Trim(flags) IN Groups6(Pad6(t))     \* trailing zero bits dropped

\* segments emitted per line, with their range flags, for an ordered token list
EmittedFlags(ts, line) ==
    LET d == DedupSeq(ts) IN
    LET on == SelectSeq(d, LAMBDA t : Dl(t) = line) IN [i \in 1..Len(on) |-> Rg(on[i])]

\* the spec's own rangeMappings writer: one bit field per generated line up to the last
\* line that holds a range token; <<>> (key absent) when no token is a range
MaxLine(ts) == IF ts = <<>> THEN 0 ELSE Dl(ts[Len(ts)])
HasRange(ts) == \E i \in DOMAIN ts : Rg(ts[i]) = 1
LastRangeLine(ts) == CHOOSE m \in {Dl(ts[i]) : i \in {j \in DOMAIN ts : Rg(ts[j]) = 1}} :
                        \A i \in DOMAIN ts : Rg(ts[i]) = 1 => Dl(ts[i]) <= m
RangeText(ts) ==
    IF ~HasRange(ts) THEN <<>>
    ELSE << FoldLeft(LAMBDA acc, ln : acc \o (IF ln > 0 THEN <<SEMI>> ELSE <<>>) \o EncRangeLine(EmittedFlags(ts, ln)),
                     <<>>, [i \in 1..(LastRangeLine(ts) + 1) |-> i - 1]) >>

\* token equality as far as it is observable: original position only for tokens with a source
TokEq(a, b) == /\ Dl(a) = Dl(b) /\ Dc(a) = Dc(b) /\ Src(a) = Src(b) /\ Nm(a) = Nm(b) /\ Rg(a) = Rg(b)
               /\ (Src(a) # -1 => Sl(a) = Sl(b) /\ Sc(a) = Sc(b))
ToksEq(as, bs) == Len(as) = Len(bs) /\ \A i \in DOMAIN as : TokEq(as[i], bs[i])

(* ============== the decoder with exact (bit-list) arithmetic ============== *)
\* Same machine, positions kept as values so that 32-bit positions and deltas of +-(2^32-1)
\* are evaluated exactly.  A token is <<dl, dcV, src, slV, scV, nm>> (dl, src, nm small integers).
VInit == [line |-> 0, dc |-> Zero, src |-> 0, sl |-> Zero, sc |-> Zero, nm |-> 0,
          seg |-> DecInit, out |-> <<>>, err |-> "", free |-> FALSE]
VClose(s, nsrc, nnm) ==
    IF s.err # "" THEN s
    ELSE IF s.seg.err # "" THEN [s EXCEPT !.err = s.seg.err]
    ELSE IF s.seg.nd > 0 THEN [s EXCEPT !.err = "leftover"]
    ELSE IF s.seg.out = <<>> THEN s
    ELSE LET f == s.seg.out  n == Len(s.seg.out) IN
         IF n \notin {1, 4, 5} THEN [s EXCEPT !.err = "arity"]
         ELSE IF n >= 4 /\ Huge(f[2]) THEN [s EXCEPT !.err = "source"]
         ELSE IF n = 5 /\ Huge(f[5]) THEN [s EXCEPT !.err = "name"]
         ELSE
         LET dc2  == AddV(s.dc, f[1])
             src2 == IF n >= 4 THEN s.src + ToInt(f[2]) ELSE s.src
             sl2  == IF n >= 4 THEN AddV(s.sl, f[3]) ELSE s.sl
             sc2  == IF n >= 4 THEN AddV(s.sc, f[4]) ELSE s.sc
             nm2  == IF n = 5 THEN s.nm + ToInt(f[5]) ELSE s.nm
         IN
         IF n >= 4 /\ (src2 < 0 \/ src2 >= nsrc) THEN [s EXCEPT !.err = "source"]
         ELSE IF n = 5 /\ (nm2 < 0 \/ nm2 >= nnm) THEN [s EXCEPT !.err = "name"]
         ELSE [s EXCEPT !.dc = dc2, !.src = src2, !.sl = sl2, !.sc = sc2, !.nm = nm2,
                        !.free = s.free \/ ~InU32(dc2) \/ ~InU32(sl2) \/ ~InU32(sc2),   \* outside u32: the format says nothing
                        !.out = Append(s.out, <<s.line, dc2, IF n >= 4 THEN src2 ELSE -1, sl2, sc2, IF n = 5 THEN nm2 ELSE -1>>)]
VStep(s, sym, nsrc, nnm) ==
    IF s.err # "" THEN s
    ELSE IF sym \in 0..63 THEN [s EXCEPT !.seg = DecStep(s.seg, sym)]
    ELSE IF sym = COMMA THEN LET c == VClose(s, nsrc, nnm) IN IF c.err # "" THEN c ELSE [c EXCEPT !.seg = DecInit]
    ELSE IF sym = SEMI THEN LET c == VClose(s, nsrc, nnm) IN
         IF c.err # "" THEN c ELSE [c EXCEPT !.seg = DecInit, !.line = s.line + 1, !.dc = Zero]
    ELSE [s EXCEPT !.err = "foreign"]
DecodeV(text, nsrc, nnm) ==
    LET c == VClose(FoldLeft(LAMBDA s, sym : VStep(s, sym, nsrc, nnm), VInit, text), nsrc, nnm) IN
    IF c.err # "" THEN [k |-> "err", toks |-> <<>>]
    ELSE IF c.free THEN [k |-> "free", toks |-> <<>>]
    ELSE [k |-> "ok", toks |-> c.out]
\* observable equality of V-tokens: original position only for tokens with a source
VTokEq(a, b) == /\ a[1] = b[1] /\ a[2] = b[2] /\ a[3] = b[3] /\ a[6] = b[6]
                /\ (a[3] # -1 => a[4] = b[4] /\ a[5] = b[5])
VToksEq(as, bs) == Len(as) = Len(bs) /\ \A i \in DOMAIN as : VTokEq(as[i], bs[i])
\* the small-integer machine and the exact machine agree wherever the former is defined
VOfTok(t) == <<Dl(t), FromInt(Dc(t)), Src(t), FromInt(Sl(t)), FromInt(Sc(t)), Nm(t)>>
=============================================================================
