------------------------------ MODULE MapModel ------------------------------
(***************************************************************************)
(* The abstract source map: an ordered token sequence plus string tables,   *)
(* and the relations the listed properties state about it: lookup (C04,     *)
(* C07), write/read round trip (C01), validity of the serialised form       *)
(* (C03).  Projections p of real maps come from the harness (doc.rs).       *)
(***************************************************************************)
EXTENDS Doc

MAXU == 2147483647      \* stand-in for u32::MAX in logged queries (greater than every logged position)
BIGN == 1073741824      \* numbers >= 2^30 are logged as this sentinel

(* ------------------------------- lookup -------------------------------- *)
Cands(ts, q) == {i \in DOMAIN ts : PosLe(Pos(ts[i]), q)}
MinOf(S) == CHOOSE i \in S : \A j \in S : i <= j
\* r is <<>> (nothing found) or <<[tok, sl, sc]>>: the token's raw fields and the reported
\* original line / column
LookupOK(ts, q, r) ==
    LET c == Cands(ts, q) IN
    IF c = {} THEN r = <<>>
    ELSE /\ r # <<>>
         /\ LET best == CHOOSE i \in c : \A j \in c : PosLe(Pos(ts[j]), Pos(ts[i]))
                bp == Pos(ts[best])
                t == r[1].tok
            IN /\ Pos(t) = bp                                      \* greatest position not after q
               /\ \E i \in c : ts[i] = t                            \* and it is a token of the map
               /\ (bp = q => t = ts[MinOf({i \in c : Pos(ts[i]) = bp})])   \* exact hit: first in iteration order
               /\ r[1].sl = Sl(t)
               /\ IF Rg(t) = 1 /\ Dl(t) = q[1]                      \* range token on its own line
                  THEN IF q[2] = MAXU \/ Sc(t) + (q[2] - Dc(t)) >= BIGN
                       THEN r[1].sc >= Sc(t)
                       ELSE r[1].sc = Sc(t) + (q[2] - Dc(t))
                  ELSE r[1].sc = Sc(t)
               \* every accessor of the returned token reports the same original position
               /\ ("src" \in DOMAIN r[1] => r[1].src = <<r[1].sl, r[1].sc>> /\ r[1].tuple = <<r[1].sl, r[1].sc>>)

\* the algorithm of the code, abstractly: a binary search that may land on ANY index holding
\* the key, then a walk back to the first one; or the insertion index when the key is absent
GlbResults(ts, q) ==
    LET hits == {i \in DOMAIN ts : Pos(ts[i]) = q} IN
    IF hits # {} THEN {MinOf(hits)}
    ELSE LET ins == Cardinality({i \in DOMAIN ts : PosLt(Pos(ts[i]), q)}) IN
         IF ins = 0 THEN {0} ELSE {ins}

(* --------------------------- ordering (C04) ---------------------------- *)
\* o = [toks, gets, count, beyond]: iteration, get_token(i) for i < count, get_token(count)
OrderingOK(o) ==
    /\ Sorted(o.toks)
    /\ o.count = Len(o.toks)
    /\ o.gets = o.toks
    /\ o.beyond = <<>>

(* --------------------------- built = model ----------------------------- *)
\* original position is observable only for tokens that have a source
Norm(t) == IF Src(t) = -1 THEN Tok(Dl(t), Dc(t), -1, 0, 0, Nm(t), Rg(t)) ELSE t
NormToks(ts) == [i \in DOMAIN ts |-> Norm(ts[i])]
ModelContents(m) == [i \in DOMAIN m.sources |-> IF i <= Len(m.contents) THEN m.contents[i] ELSE <<>>]
BuiltMatches(m, p) ==
    /\ p.kind = "regular"
    /\ (IF StrictlySorted(m.toks) THEN ToksEq(p.toks, m.toks)
        ELSE Sorted(p.toks) /\ SameBag(NormToks(p.toks), NormToks(m.toks)))
    /\ p.sources = [i \in DOMAIN m.sources |-> Join(m.root, m.sources[i])]
    /\ p.names = m.names
    /\ p.contents = ModelContents(m)
    /\ p.file = m.file /\ p.root = m.root /\ p.debug_id = m.debug_id
    /\ SeqRange(p.ignore) = SeqRange(m.ignore)

(* --------------------------- round trip (C01) -------------------------- *)
\* "up to removal of exact consecutive duplicates": D is T with some (none, all) of the repeats inside each run of equal
\* consecutive elements removed.  (The writer drops a token whose RAW fields equal its predecessor's; two tokens that are
\* observably equal but differ in an unobservable field -- a name id left dangling by remove_names(), the original position
\* of a source-less token -- are both written.  The statements allow either.)
RunLen(s) == CHOOSE n \in 1..Len(s) : (\A i \in 1..n : s[i] = s[1]) /\ (n = Len(s) \/ s[n + 1] # s[1])
RECURSIVE DupReduct(_, _)
DupReduct(D, T) ==
    IF T = <<>> THEN D = <<>>
    ELSE /\ D # <<>> /\ D[1] = T[1]
         /\ LET rd == RunLen(D)  rt == RunLen(T) IN
            rd <= rt /\ DupReduct(SubSeq(D, rd + 1, Len(D)), SubSeq(T, rt + 1, Len(T)))
ToksUpToDups(ds, ts) == DupReduct(NormToks(ds), NormToks(ts))
KeepIdx(ts) == {i \in 1..Len(ts) : i = 1 \/ ts[i] # ts[i - 1]}
RestrictTo(s, keep) == [n \in 1..Cardinality(keep) |-> s[SetToSortSeq(keep, <)[n]]]
\* what reading back the written form must give, computed with the spec's writer and reader
ReadBackToks(ts, nsrc, nnm) ==
    LET rt == RangeText(ts) IN
    DecodeR(Encode(ts), nsrc, nnm, IF rt = <<>> THEN <<>> ELSE RangeLines(rt[1]))

FlatRoundTrip(p1, p2) ==
    LET rb == ReadBackToks(p1.toks, Len(p1.sources), Len(p1.names)) IN
    /\ p2.kind = p1.kind
    /\ rb.k = "ok" /\ Len(rb.toks) <= Len(p2.toks)          \* the specification's own writer + reader remove every repeat
    /\ ToksUpToDups(rb.toks, p2.toks) /\ ToksUpToDups(p2.toks, p1.toks)
    /\ p2.sources = p1.sources /\ p2.names = p1.names /\ p2.contents = p1.contents
    /\ p2.file = p1.file /\ p2.root = p1.root /\ p2.debug_id = p1.debug_id /\ p2.ignore = p1.ignore
    \* (repeats are exact, so they share their scope: tokens paired with scopes are reduced the same way)
    /\ (p1.kind = "hermes" => /\ Len(p2.scopes) = Len(p2.toks) /\ Len(p1.scopes) = Len(p1.toks)
                              /\ DupReduct([i \in DOMAIN p2.toks |-> <<Norm(p2.toks[i]), p2.scopes[i]>>],
                                           [i \in DOMAIN p1.toks |-> <<Norm(p1.toks[i]), p1.scopes[i]>>]))

RECURSIVE RoundTripEq(_, _)
RoundTripEq(p1, p2) ==
    IF p1.kind = "index" THEN
        /\ p2.kind = "index" /\ p2.file = p1.file
        /\ Len(p2.sections) = Len(p1.sections)
        /\ \A i \in DOMAIN p1.sections :
              /\ p2.sections[i].off = p1.sections[i].off
              /\ p2.sections[i].url = p1.sections[i].url
              /\ Has(p2.sections[i].map) = Has(p1.sections[i].map)
              /\ (Has(p1.sections[i].map) => RoundTripEq(Get(p1.sections[i].map), Get(p2.sections[i].map)))
    ELSE FlatRoundTrip(p1, p2)

(* ------------------------ serialised form (C03) ------------------------ *)
AllStrings(ns) == \A i \in DOMAIN ns : "s" \in DOMAIN ns[i]
SomeContent(p) == \E i \in DOMAIN p.contents : p.contents[i] # <<>>
\* the five optional keys must be left out, never written as null
OptionalKeys == {"sourcesContent", "sourceRoot", "file", "ignoreList", "debug_id"}
NoOptionalNull(d) == \A i \in DOMAIN d.nulls : d.nulls[i] \notin OptionalKeys
FlatEncodeOK(p, d) ==
    /\ d.version = <<3>> /\ d.nulls = <<>> /\ ~Has(d.sections) /\ ~Has(d.debugId)
    /\ Has(d.mappings) /\ Has(d.sources) /\ Has(d.names)
    /\ LET r == DecodeR(Get(d.mappings), Len(p.sources), Len(p.names), RangeOf(d)) IN
          r.k = "ok" /\ ToksUpToDups(r.toks, p.toks)
    /\ ExpSources(d) = p.sources                       \* raw names + root give the map's sources
    /\ d.root = p.root                                 \* key absent iff the map has no root
    /\ AllStrings(Get(d.names)) /\ ExpNames(d) = p.names
    /\ (IF SomeContent(p) THEN Has(d.contents) /\ Get(d.contents) = p.contents ELSE ~Has(d.contents))
    /\ (IF p.file = <<>> THEN ~Has(d.file) ELSE d.file = <<[s |-> p.file[1]]>>)
    /\ (IF p.ignore = <<>> THEN ~Has(d.ignore) ELSE Has(d.ignore) /\ SeqRange(Get(d.ignore)) = SeqRange(p.ignore))
    /\ d.debug_id = p.debug_id
    /\ (p.kind = "hermes") = Has(d.xfs)

RECURSIVE EncodeOK(_, _)
EncodeOK(p, d) ==
    IF p.kind = "index" THEN
        /\ d.version = <<3>> /\ NoOptionalNull(d) /\ Has(d.sections)
        /\ ~Has(d.mappings)
        /\ (IF p.file = <<>> THEN ~Has(d.file) ELSE d.file = <<[s |-> p.file[1]]>>)
        /\ LET ss == Get(d.sections) IN
           /\ Len(ss) = Len(p.sections)
           /\ \A i \in DOMAIN ss :
                /\ ss[i].off = p.sections[i].off
                /\ ss[i].url = p.sections[i].url
                /\ Has(ss[i].map) = Has(p.sections[i].map)
                /\ (Has(ss[i].map) => EncodeOK(Get(p.sections[i].map), Get(ss[i].map)))
    ELSE FlatEncodeOK(p, d)
=============================================================================
