----------------------------- MODULE Trace_C15 -----------------------------
(* C15: a stateful trace specification.  Each case is one fresh SourceView  *)
(* and a history of calls; the lazy-index machine of SourceView.tla is      *)
(* stepped with every recorded call and its return value compared with the  *)
(* recorded one (and with the history-independent declarative answer).      *)
EXTENDS SourceView, TLC, Json, IOUtils
Rec == ndJsonDeserialize(IOEnv.TRACE)
VARIABLES l, bad, free, sv
vars == <<l, bad, free, sv>>

Call(e) == [op |-> e.op, i |-> e.args.i, line |-> e.args.line, c |-> e.args.c, n |-> e.args.n]
Init == l = 1 /\ bad = <<>> /\ free = <<>> /\ sv = SvInit
Next == /\ l <= Len(Rec)
        /\ LET e == Rec[l]
               s0 == IF e.first THEN SvInit ELSE sv            \* a new case starts with a fresh view
               big == e.args.rep # <<>> \/ e.args.segs # <<>>   \* large text given as a repeated pattern / as long-line segments: judged by the lemmas
               r == IF e.args.rep # <<>> THEN [st |-> s0, ret |-> RepDecl(e.args.rep[1].unit, e.args.rep[1].n, Call(e))]
                    ELSE IF e.args.segs # <<>> THEN [st |-> s0, ret |-> SegDecl(e.args.segs, Call(e))]
                    ELSE Apply(s0, e.args.text, Call(e))
               ok == /\ e.out.k = "ok"
                     /\ (e.args.segs # <<>> => SegsOK(e.args.segs))
                     /\ e.out.ret = r.ret
                     /\ (~big => r.ret = Decl(e.args.text, Call(e)) /\ IndexConsistent(r.st, e.args.text))
           IN /\ sv' = r.st
              /\ bad' = IF ok THEN bad ELSE Append(bad, e.i)
        /\ l' = l + 1
        /\ UNCHANGED free
Spec == Init /\ [][Next]_vars
Report == (l = Len(Rec) + 1) => PrintT("RESULT " \o ToJson([events |-> Len(Rec), bad |-> bad, free |-> free]))
=============================================================================
