------------------------------- MODULE Hermes -------------------------------
(***************************************************************************)
(* Hermes / Metro function maps (C14).  x_facebook_sources has one entry    *)
(* per source: null, or a list of metadata whose first element is the       *)
(* function map [names, mappings].  The mappings text: wire lines separated *)
(* by ';' (the column restarts at 0 on each), segments separated by ',',    *)
(* each a VLQ group (column delta [, name index delta [, line delta]]);     *)
(* name index and line accumulate over the whole text, the line starts at   *)
(* 1.  Any VLQ error makes the whole function map unusable (never the map). *)
(***************************************************************************)
EXTENDS Doc

\* decoder machine over the symbol stream; entries are <<line, col, nameIndex>>
FInit == [col |-> 0, nm |-> 0, line |-> 1, seg |-> DecInit, out |-> <<>>, bad |-> FALSE]
FClose(s) ==
    IF s.bad THEN s
    ELSE IF s.seg.err # "" \/ s.seg.nd > 0 THEN [s EXCEPT !.bad = TRUE]
    ELSE IF s.seg.out = <<>> THEN s                                   \* empty segment
    ELSE LET f == s.seg.out IN
         IF ~AllSmall(f) THEN [s EXCEPT !.bad = TRUE]                 \* beyond the modelled range: treated as unusable
         ELSE LET c2 == s.col + ToInt(f[1])
                  n2 == s.nm + (IF Len(f) >= 2 THEN ToInt(f[2]) ELSE 0)
                  l2 == s.line + (IF Len(f) >= 3 THEN ToInt(f[3]) ELSE 0)
              IN [s EXCEPT !.col = c2, !.nm = n2, !.line = l2, !.out = Append(s.out, <<l2, c2, n2>>)]
FStep(s, sym) ==
    IF s.bad THEN s
    ELSE IF sym \in 0..63 THEN [s EXCEPT !.seg = DecStep(s.seg, sym)]
    ELSE IF sym = COMMA THEN [FClose(s) EXCEPT !.seg = DecInit]
    ELSE IF sym = SEMI THEN [FClose(s) EXCEPT !.seg = DecInit, !.col = 0]
    ELSE [s EXCEPT !.bad = TRUE]
\* <<>> = unusable, <<entries>> otherwise
DecodeFn(text) == LET s == FClose(FoldLeft(FStep, FInit, text)) IN IF s.bad THEN <<>> ELSE <<s.out>>

\* the function map of source index src (0-based) in document d: <<>> or <<[names, entries]>>
FnMap(d, src) ==
    IF ~Has(d.xfs) \/ src < 0 \/ src + 1 > Len(Get(d.xfs)) THEN <<>>
    ELSE LET e == Get(d.xfs)[src + 1] IN
         IF e = <<>> THEN <<>>                                        \* null entry
         ELSE IF Get(e) = <<>> THEN <<>>                               \* empty metadata list
         ELSE LET fm == Get(e)[1]  dec == DecodeFn(fm.mappings) IN
              IF dec = <<>> THEN <<>> ELSE <<[names |-> fm.names, entries |-> dec[1]]>>

\* name attached to the last entry at or before (line, col); lines are 1-based, columns 0-based
ScopeAt(fm, line, col) ==
    LET c == {i \in DOMAIN fm.entries : PosLe(<<fm.entries[i][1], fm.entries[i][2]>>, <<line, col>>)} IN
    IF c = {} THEN <<>>
    ELSE LET i == CHOOSE x \in c : \A y \in c : PosLe(<<fm.entries[y][1], fm.entries[y][2]>>, <<fm.entries[x][1], fm.entries[x][2]>>)
             n == fm.entries[i][3]
         IN IF n >= 0 /\ n < Len(fm.names) THEN <<fm.names[n + 1]>> ELSE <<>>
EntriesStrictlySorted(fm) == \A i \in 1..(Len(fm.entries) - 1) :
    PosLt(<<fm.entries[i][1], fm.entries[i][2]>>, <<fm.entries[i + 1][1], fm.entries[i + 1][2]>>)

\* scope of a token (original position, 0-based line) of document d
TokenScope(d, t) ==
    IF Src(t) = -1 THEN <<>>
    ELSE LET f == FnMap(d, Src(t)) IN IF f = <<>> THEN <<>> ELSE ScopeAt(f[1], Sl(t) + 1, Sc(t))
\* well-formedness the property assumes: usable function maps list their entries in order
WellFormedFns(d) == \A s \in 0..(Len(RawSources(d)) - 1) :
    FnMap(d, s) # <<>> => EntriesStrictlySorted(FnMap(d, s)[1])
=============================================================================
