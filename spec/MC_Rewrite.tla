------------------------------ MODULE MC_Rewrite ------------------------------
(* Every small map (duplicate and unreferenced sources and names, a root,   *)
(* partial contents, sources listed in an order different from first use)   *)
(* x every option combination; the rewrite loop runs one token per step.    *)
EXTENDS Rewrite, Json
CONSTANTS MaxToks
SA == <<47, 97, 47, 120>>        \* "/a/x"
SB == <<47, 97, 47, 121>>        \* "/a/y"
SC == <<98>>                     \* "b"
SrcTables == { <<SA, SB, SA>>, <<SC, SA>>, <<SB, SA, SC>> }         \* duplicate name; unreferenced; order # first use
NameTables == { <<"n", "m", "n">>, <<>> }
ContentTables(n) == { [i \in 1..n |-> <<>>], [i \in 1..n |-> IF i = 2 THEN <<"two">> ELSE <<>>], [i \in 1..n |-> <<"c">>] }
PrefixLists == { <<>>, << <<47, 97>> >>, << <<47, 97, 47>> >>, << <<47>>, <<47, 97>> >>, << <<98>>, <<47, 97>> >>,
                 << <<47>>, <<97>> >>,
                 << <<47, 97>>, <<47>> >> }        \* nested prefixes, the more specific one listed first      \* "/" then "a": the remainder after the first strip begins with the second prefix
VARIABLES phase, p, opts, k, b
vars == <<phase, p, opts, k, b>>
Init == /\ phase = "build" /\ k = 0 /\ b = BInit
        /\ opts \in [names : BOOLEAN, contents : BOOLEAN, prefixes : PrefixLists]
        /\ \E st \in SrcTables, nt \in NameTables :
             \E ct \in ContentTables(Len(st)) :
               p = [toks |-> <<>>, sources |-> st, names |-> nt, contents |-> ct, file |-> <<"f.js">>, debug_id |-> <<>>]
AddToken == /\ phase = "build" /\ Len(p.toks) < MaxToks
            /\ \E c \in {0, 3}, s \in -1..(Len(p.sources) - 1), n \in {-1} \cup (IF p.names = <<>> THEN {} ELSE {0, 2}) :
                 /\ (s = -1 => n = -1)
                 /\ (IF p.toks = <<>> THEN TRUE ELSE Dc(p.toks[Len(p.toks)]) < c \/ (Dc(p.toks[Len(p.toks)]) = c /\ c = 3))
                 /\ p' = [p EXCEPT !.toks = Append(@, Tok(0, c + Len(p.toks), s, 1, 2, n, 0))]
            /\ UNCHANGED <<phase, opts, k, b>>
Start == phase = "build" /\ phase' = "run" /\ b' = RwInit(p) /\ UNCHANGED <<p, opts, k>>
Step == /\ phase = "run" /\ k < Len(p.toks)
        /\ b' = RwStep(b, p.toks[k + 1], p, opts) /\ k' = k + 1
        /\ UNCHANGED <<phase, p, opts>>
Finish == /\ phase = "run" /\ k = Len(p.toks)
          /\ b' = RwFinish(b, opts) /\ phase' = "done" /\ UNCHANGED <<p, opts, k>>
Next == AddToken \/ Start \/ Step \/ Finish
Spec == Init /\ [][Next]_vars
Done == phase = "done"
FoldIsMachine == Done => b = RewriteSpec(p, opts)
ResolutionPreserved == Done => SameResolution(p, opts, b)
Compact == Done => NothingUnreferenced(b)
\* before prefix stripping the tables hold no duplicates (duplicates only arise from stripping)
NoDupBeforeStrip == phase = "run" => NoDup(b.srcs) /\ NoDup(b.names)
ContentsFollowNames == Done =>
    \A i \in DOMAIN b.srcs :
        LET olds == {j \in DOMAIN p.sources : StripOne(p.sources[j], opts.prefixes) = b.srcs[i]
                                               /\ \E t \in DOMAIN p.toks : Src(p.toks[t]) = j - 1} IN
        IF opts.contents THEN Contents(b)[i] = <<>> \/ \E j \in olds : Contents(b)[i] = p.contents[j]
        ELSE Contents(b)[i] = <<>>
EmitCase == Done => PrintT("CASE " \o ToJson([op |-> "rewrite", toks |-> p.toks, sources |-> p.sources, names |-> p.names,
                                   contents |-> p.contents, opts |-> opts]))
=============================================================================
