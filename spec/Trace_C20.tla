----------------------------- MODULE Trace_C20 -----------------------------
(* C20: every recorded access to a real RamBundle must agree with the       *)
(* declarative reader of RamBundle.tla.                                     *)
EXTENDS RamBundle, TLC, Json, IOUtils
Rec == ndJsonDeserialize(IOEnv.TRACE)
VARIABLES l, bad, free
vars == <<l, bad, free>>

BIGN == 1073741824
CountOK(b, n) == IF IsSmall(CountF(b)) THEN n = Num(CountF(b)) ELSE n >= 65536
ItersOK(spec, obs) == /\ Len(spec) = Len(obs)
                      /\ \A i \in DOMAIN spec : spec[i].id = obs[i].id /\ Agree(spec[i].r, obs[i].r)
\* one cursor session on the module iterator (TokenIter.tla): the items are the present modules in id order,
\* an unreadable slot being an error item; judged when the table is small and no item is left free
It == INSTANCE TokenIter
SessItems(b) == LET it == Iter(b, 256) IN
    [i \in DOMAIN it |-> [id |-> IF it[i].r.k = "err" THEN -1 ELSE it[i].id, r |-> [k |-> it[i].r.k, v |-> it[i].r.v]]]
SessOK(b, steps, sess) ==
    IF ~(IsSmall(CountF(b)) /\ Num(CountF(b)) <= 256) THEN sess = <<>>
    ELSE /\ sess # <<>>
         /\ sess[1].k = "ok"
         /\ \/ \E i \in DOMAIN Iter(b, 256) : Iter(b, 256)[i].r.k = "free"
            \/ It!IterOK(SessItems(b), steps, sess[1].outs)
Judge(e) ==
    /\ e.op = "bundle"
    /\ e.out.k \in {"ok", "err"}                              \* no panic
    /\ LET b == e.args.bytes  o == e.out IN
       /\ o.is = IsBundle(b)                                  \* recognition: complete header with the magic
       /\ IF ~IsBundle(b) THEN o.k = "err"                    \* parsing refused
          ELSE /\ o.k = "ok"
               /\ CountOK(b, o.count)
               /\ Agree(Startup(b), o.startup)
               /\ Len(o.gets) = Len(e.args.ids)
               /\ \A i \in DOMAIN e.args.ids : Agree(GetModule(b, e.args.ids[i]), o.gets[i])
               /\ ItersOK(Iter(b, 256), o.iter)
               /\ SessOK(b, e.args.steps, o.sess)
Free(e) == FALSE
Init == l = 1 /\ bad = <<>> /\ free = <<>>
Next == /\ l <= Len(Rec)
        /\ l' = l + 1
        /\ bad' = IF Judge(Rec[l]) THEN bad ELSE Append(bad, Rec[l].i)
        /\ free' = IF Free(Rec[l]) THEN Append(free, Rec[l].i) ELSE free
Spec == Init /\ [][Next]_vars
Report == (l = Len(Rec) + 1) => PrintT("RESULT " \o ToJson([events |-> Len(Rec), bad |-> bad, free |-> free]))
=============================================================================
