----------------------------- MODULE Trace_C20 -----------------------------
(* C20: every recorded access to a real RamBundle must agree with the       *)
(* declarative reader of RamBundle.tla.                                     *)
EXTENDS RamBundle, TLC, Json, IOUtils
Rec == ndJsonDeserialize(IOEnv.TRACE)
VARIABLES l, bad, free
vars == <<l, bad, free>>

BIGN == 1073741824
CountOK(b, n) == IF IsSmall(CountF(b)) THEN n = Num(CountF(b)) ELSE n >= 65536
ItersOK(spec, obs) == /\ Len(spec) = Len(obs)
                      /\ \A i \in DOMAIN spec : spec[i].id = obs[i].id /\ Agree(spec[i].r, obs[i].r)
Judge(e) ==
    /\ e.op = "bundle"
    /\ e.out.k \in {"ok", "err"}                              \* no panic
    /\ LET b == e.args.bytes  o == e.out IN
       /\ o.is = IsBundle(b)                                  \* recognition: complete header with the magic
       /\ IF ~IsBundle(b) THEN o.k = "err"                    \* parsing refused
          ELSE /\ o.k = "ok"
               /\ CountOK(b, o.count)
               /\ Agree(Startup(b), o.startup)
               /\ Len(o.gets) = Len(e.args.ids)
               /\ \A i \in DOMAIN e.args.ids : Agree(GetModule(b, e.args.ids[i]), o.gets[i])
               /\ ItersOK(Iter(b, 256), o.iter)
Free(e) == FALSE
Init == l = 1 /\ bad = <<>> /\ free = <<>>
Next == /\ l <= Len(Rec)
        /\ l' = l + 1
        /\ bad' = IF Judge(Rec[l]) THEN bad ELSE Append(bad, Rec[l].i)
        /\ free' = IF Free(Rec[l]) THEN Append(free, Rec[l].i) ELSE free
Spec == Init /\ [][Next]_vars
Report == (l = Len(Rec) + 1) => PrintT("RESULT " \o ToJson([events |-> Len(Rec), bad |-> bad, free |-> free]))
=============================================================================
