----------------------------- MODULE Trace_C17 -----------------------------
(* C17: get_original_function_name of the real crate against the relation   *)
(* ResolveOK of NameResolve.tla.                                            *)
EXTENDS NameResolve, Json, IOUtils
Rec == ndJsonDeserialize(IOEnv.TRACE)
VARIABLES l, bad, free
vars == <<l, bad, free>>
Normal(e) == /\ e.op = "resolve" /\ e.out.k = "ok"
             /\ ResolveOK(e.args.lines, e.args.toks, e.args.names, e.args.q, e.args.name, e.out.ret)
\* excuse (evaluated only when the relation does not hold): the walk met a token whose column lies inside a
\* surrogate pair -- not a character position, left free by NameResolve.tla; a panic is never excused
Excused(e) == /\ e.op = "resolve" /\ e.out.k = "ok"
              /\ LET i0 == Landing(e.args.toks, e.args.q) IN i0 # 0 /\ WalkMeetsMidPair(e.args.lines, e.args.toks, i0)
Init == l = 1 /\ bad = <<>> /\ free = <<>>
Next == /\ l <= Len(Rec)
        /\ l' = l + 1
        /\ LET n == Normal(Rec[l]) IN
           IF n THEN bad' = bad /\ free' = free
           ELSE IF Excused(Rec[l]) THEN bad' = bad /\ free' = Append(free, Rec[l].i)
           ELSE bad' = Append(bad, Rec[l].i) /\ free' = free
Spec == Init /\ [][Next]_vars
Report == (l = Len(Rec) + 1) => PrintT("RESULT " \o ToJson([events |-> Len(Rec), bad |-> bad, free |-> free]))
=============================================================================
