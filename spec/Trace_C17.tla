----------------------------- MODULE Trace_C17 -----------------------------
(* C17: get_original_function_name of the real crate against the relation   *)
(* ResolveOK of NameResolve.tla.                                            *)
EXTENDS NameResolve, Json, IOUtils
Rec == ndJsonDeserialize(IOEnv.TRACE)
VARIABLES l, bad, free
vars == <<l, bad, free>>
Judge(e) == /\ e.op = "resolve" /\ e.out.k = "ok"
            /\ ResolveOK(e.args.lines, e.args.toks, e.args.names, e.args.q, e.args.name, e.out.ret)
Free(e) == FALSE
Init == l = 1 /\ bad = <<>> /\ free = <<>>
Next == /\ l <= Len(Rec)
        /\ l' = l + 1
        /\ bad' = IF Judge(Rec[l]) THEN bad ELSE Append(bad, Rec[l].i)
        /\ free' = IF Free(Rec[l]) THEN Append(free, Rec[l].i) ELSE free
Spec == Init /\ [][Next]_vars
Report == (l = Len(Rec) + 1) => PrintT("RESULT " \o ToJson([events |-> Len(Rec), bad |-> bad, free |-> free]))
=============================================================================
