------------------------------- MODULE Vlq -------------------------------
(***************************************************************************)
(* Base64 VLQ as used by Source Map v3, specified at BIT level so that the  *)
(* 62-bit range of the format needs no integers beyond TLC's 32 bits.       *)
(*                                                                          *)
(* A digit is a number 0..63 (its position in the base64 alphabet).  A      *)
(* symbol >= 64 is not a digit (64 = ',', 65 = ';', 100+b = foreign byte b).*)
(* A value is a record [neg, bits]: magnitude bits, least significant first,*)
(* without trailing zeros; zero is [neg |-> FALSE, bits |-> <<>>].          *)
(*                                                                          *)
(* Two formulations are given and TLC checks that they agree (MC_Vlq):      *)
(*   - the decoder MACHINE (one step per digit, as an implementation works) *)
(*   - the DECLARATIVE reading (cut the text at terminator digits).         *)
(***************************************************************************)
EXTENDS Naturals, Integers, Sequences, SequencesExt, FiniteSets

MaxDigits == 13          \* a single value has at most 13 digits; the 14th is an error
MaxMagBits == 62         \* the statement's domain: magnitudes that fit in 62 bits

Bit == {0, 1}
Bits5(n) == << n % 2, (n \div 2) % 2, (n \div 4) % 2, (n \div 8) % 2, (n \div 16) % 2 >>
FromBits5(g) == g[1] + 2*g[2] + 4*g[3] + 8*g[4] + 16*g[5]

RECURSIVE Trim(_)
Trim(bs) == IF bs = <<>> THEN <<>>
            ELSE IF bs[Len(bs)] = 0 THEN Trim(SubSeq(bs, 1, Len(bs) - 1)) ELSE bs

Pad5(bs) == bs \o [i \in 1..((5 - (Len(bs) % 5)) % 5) |-> 0]

Zero == [neg |-> FALSE, bits |-> <<>>]
MkVal(raw) ==   \* raw = sign bit followed by magnitude bits
    LET m == Trim(Tail(raw)) IN
    [neg |-> (raw[1] = 1 /\ m # <<>>), bits |-> m]

IsValue(v) == /\ v.neg \in BOOLEAN
              /\ v.bits \in Seq(Bit)
              /\ (v.bits # <<>> => v.bits[Len(v.bits)] = 1)
              /\ (v.bits = <<>> => ~v.neg)
InDomain(v) == Len(v.bits) <= MaxMagBits

(* ---------------------------- encoding --------------------------------- *)
Raw(v) == << IF v.neg THEN 1 ELSE 0 >> \o v.bits

RECURSIVE Groups(_)
Groups(bs) == IF Len(bs) <= 5 THEN << Pad5(bs) >>
              ELSE << SubSeq(bs, 1, 5) >> \o Groups(SubSeq(bs, 6, Len(bs)))

Enc(v) == LET gs == Groups(Raw(v)) IN
          [i \in 1..Len(gs) |-> FromBits5(gs[i]) + (IF i < Len(gs) THEN 32 ELSE 0)]

EncList(vs) == FoldLeft(LAMBDA acc, v : acc \o Enc(v), <<>>, vs)

(* ------------------------ decoder machine ------------------------------ *)
\* state of the machine: raw bits of the value being read, its digit count,
\* the values completed so far, and an error flag ("" = none)
DecInit == [cur |-> <<>>, nd |-> 0, out |-> <<>>, err |-> ""]

IsDigit(d) == d \in 0..63

DecStep(s, d) ==
    IF s.err # "" THEN s
    ELSE IF ~IsDigit(d) THEN [s EXCEPT !.err = "foreign"]
    ELSE IF s.nd >= MaxDigits THEN [s EXCEPT !.err = "toolong"]
    ELSE LET cur2 == s.cur \o Bits5(d % 32) IN
         IF d >= 32 THEN [s EXCEPT !.cur = cur2, !.nd = s.nd + 1]
         ELSE [s EXCEPT !.cur = <<>>, !.nd = 0, !.out = Append(s.out, MkVal(cur2))]

DecFinish(s) ==
    IF s.err # "" THEN [k |-> "err", e |-> s.err, vals |-> <<>>]
    ELSE IF s.nd > 0 THEN [k |-> "err", e |-> "leftover", vals |-> <<>>]
    ELSE IF s.out = <<>> THEN [k |-> "err", e |-> "novalues", vals |-> <<>>]
    ELSE [k |-> "ok", e |-> "", vals |-> s.out]

Dec(ds) == DecFinish(FoldLeft(DecStep, DecInit, ds))

(* ------------------------ declarative reading -------------------------- *)
\* The text is cut after every terminator digit (< 32).
Terminators(ds) == {i \in 1..Len(ds) : ds[i] < 32}
RunStart(ds, i) ==  \* first position of the value that ends at terminator i
    LET prev == {j \in Terminators(ds) : j < i} IN
    IF prev = {} THEN 1 ELSE (CHOOSE j \in prev : \A k \in prev : k <= j) + 1
RunBits(ds, a, b) == FoldLeft(LAMBDA acc, d : acc \o Bits5(d % 32), <<>>, SubSeq(ds, a, b))

DeclErr(ds) ==
    \/ ds = <<>>
    \/ \E i \in 1..Len(ds) : ~IsDigit(ds[i])
    \/ ds[Len(ds)] >= 32
    \/ \E a \in 1..Len(ds) : /\ a + MaxDigits <= Len(ds)
                             /\ \A j \in a..(a + MaxDigits - 1) : ds[j] >= 32
       \* 13 continuation digits in a row followed by one more digit = a 14-digit value

DeclVals(ds) ==
    LET ts == SetToSortSeq(Terminators(ds), <) IN
    [n \in 1..Len(ts) |-> MkVal(RunBits(ds, RunStart(ds, ts[n]), ts[n]))]

DecDecl(ds) == IF DeclErr(ds) THEN [k |-> "err", vals |-> <<>>]
               ELSE [k |-> "ok", vals |-> DeclVals(ds)]

(* ----------------------------- canonical ------------------------------- *)
\* A text is canonical iff every value is written without a superfluous
\* trailing zero group and zero is written as the single digit 0 (no "-0").
Canonical(ds) ==
    /\ ~DeclErr(ds)
    /\ \A i \in Terminators(ds) :
         LET a == RunStart(ds, i) IN
         /\ (a < i => ds[i] # 0)       \* multi-digit value must not end in a zero group
         /\ (a = i => ds[i] # 1)       \* lone sign bit: "-0"

(* -------------------- small integers <-> values ------------------------ *)
RECURSIVE NatBits(_)
NatBits(n) == IF n = 0 THEN <<>> ELSE << n % 2 >> \o NatBits(n \div 2)
FromInt(n) == IF n < 0 THEN [neg |-> TRUE, bits |-> NatBits(-n)]
              ELSE [neg |-> FALSE, bits |-> NatBits(n)]
RECURSIVE BitsNat(_)
BitsNat(bs) == IF bs = <<>> THEN 0 ELSE bs[1] + 2 * BitsNat(Tail(bs))
Small(v) == Len(v.bits) <= 30            \* evaluable with TLC's 32-bit integers
ToInt(v) == IF v.neg THEN -BitsNat(v.bits) ELSE BitsNat(v.bits)

(* ----------------- exact arithmetic on values ("Word") ----------------- *)
\* TLC integers are 32 bit; sums of 32-bit unsigned numbers and their differences are computed
\* on the bit lists instead (ripple carry / borrow), so the specification has no 2^30 bound.
RestOf(x) == IF x = <<>> THEN <<>> ELSE Tail(x)
BitOf(x) == IF x = <<>> THEN 0 ELSE x[1]
RECURSIVE AddBitsC(_, _, _)
AddBitsC(x, y, c) ==
    IF x = <<>> /\ y = <<>> THEN (IF c = 1 THEN <<1>> ELSE <<>>)
    ELSE LET t == BitOf(x) + BitOf(y) + c IN << t % 2 >> \o AddBitsC(RestOf(x), RestOf(y), t \div 2)
AddBits(x, y) == Trim(AddBitsC(x, y, 0))
RECURSIVE SubBitsB(_, _, _)          \* x - y for magnitudes with x >= y
SubBitsB(x, y, br) ==
    IF x = <<>> THEN <<>>
    ELSE LET d == x[1] - BitOf(y) - br IN
         << IF d < 0 THEN d + 2 ELSE d >> \o SubBitsB(Tail(x), RestOf(y), IF d < 0 THEN 1 ELSE 0)
SubBits(x, y) == Trim(SubBitsB(x, y, 0))
LtBits(x, y) == \/ Len(x) < Len(y)
                \/ (Len(x) = Len(y) /\ \E i \in 1..Len(x) : x[i] < y[i] /\ \A j \in (i + 1)..Len(x) : x[j] = y[j])
NormV(v) == IF v.bits = <<>> THEN Zero ELSE v
AddV(a, b) == IF a.neg = b.neg THEN NormV([neg |-> a.neg, bits |-> AddBits(a.bits, b.bits)])
              ELSE IF LtBits(a.bits, b.bits) THEN NormV([neg |-> b.neg, bits |-> SubBits(b.bits, a.bits)])
              ELSE NormV([neg |-> a.neg, bits |-> SubBits(a.bits, b.bits)])
NegV(v) == NormV([neg |-> ~v.neg, bits |-> v.bits])
SubV(a, b) == AddV(a, NegV(b))
InU32(v) == ~v.neg /\ Len(v.bits) <= 32
=============================================================================
