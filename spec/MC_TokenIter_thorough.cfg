CONSTANTS
  N = 5
  MaxSteps = 4
  MaxArg = 3
SPECIFICATION Spec
INVARIANTS MachineRefinesClosedForm YieldedIncreasing PlainNextIsIndexing YieldedSorted EmitCase
PROPERTIES CursorMonotone
CHECK_DEADLOCK FALSE
