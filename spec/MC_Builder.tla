----------------------------- MODULE MC_Builder -----------------------------
(* Every history of <= Depth builder calls followed by into_sourcemap and    *)
(* <= MapDepth map setter calls, over small pools with duplicate / empty /  *)
(* absolute / URL strings and roots with and without trailing '/'.          *)
EXTENDS Builder, Json
CONSTANTS Depth, MapDepth, Narrow
A == <<97>>                       \* "a"
ABS == <<47, 120>>                \* "/x"
URL == <<104, 116, 116, 112, 58, 47, 47, 104>>   \* "http://h"
SrcPool == { A, <<>>, ABS, URL, <<98>> }
RootPool == { <<>>, << <<>> >>, << <<114>> >>, << <<114, 47>> >>, << <<114, 47, 47>> >>, << <<47>> >> }   \* none, "", "r", "r/", "r//", "/"
NamePool == { "n", "", "m" }
P0 == <<0, 0, 0, 0, 0>>
P1 == <<0, 4, 1, 2, 0>>
Z == [op |-> "", s |-> <<>>, n |-> "", pos |-> P0, src |-> <<>>, name |-> <<>>, sid |-> -1, nid |-> -1,
      c |-> <<>>, id |-> 0, r |-> <<>>, f |-> <<>>, d |-> <<>>]
BuilderOpsNarrow(b) ==
       {[Z EXCEPT !.op = "add_source", !.s = s] : s \in {A, ABS}}
  \cup {[Z EXCEPT !.op = "add", !.pos = P1, !.src = sr, !.name = nm] : sr \in {<<>>, <<A>>}, nm \in {<<>>, <<"n">>}}
  \cup {[Z EXCEPT !.op = "set_source_contents", !.id = i, !.c = <<"text">>] : i \in 0..(Len(b.srcs) - 1)}
  \cup {[Z EXCEPT !.op = "add_to_ignore_list", !.id = i] : i \in 0..(Len(b.srcs) - 1)}
  \cup {[Z EXCEPT !.op = "set_source_root", !.r = r] : r \in { << <<114, 47>> >>, << <<114, 47, 47>> >> }}
MapOpsNarrow(b) ==
       {[Z EXCEPT !.op = "m_set_source_root", !.r = r] : r \in { <<>>, << <<>> >>, << <<114>> >>, << <<114, 47, 47>> >> }}
  \cup {[Z EXCEPT !.op = "m_set_source", !.id = i, !.s = s] : i \in 0..(Len(b.srcs) - 1), s \in {A, ABS}}
  \cup {[Z EXCEPT !.op = "m_set_source_contents", !.id = i, !.c = <<"t2">>] : i \in 0..(Len(b.srcs) - 1)}
  \cup {[Z EXCEPT !.op = "m_saveload"]}
BuilderOps(b) ==
       {[Z EXCEPT !.op = "add_source", !.s = s] : s \in SrcPool}
  \cup {[Z EXCEPT !.op = "add_name", !.n = n] : n \in {"n", ""}}
  \cup {[Z EXCEPT !.op = "add", !.pos = p, !.src = sr, !.name = nm] :
            p \in {P0, P1}, sr \in {<<>>, <<A>>, <<ABS>>}, nm \in {<<>>, <<"n">>}}
  \cup {[Z EXCEPT !.op = "add_raw", !.pos = P1, !.sid = i] : i \in {j \in -1..0 : j < Len(b.srcs)}}
  \cup {[Z EXCEPT !.op = "set_source_contents", !.id = i, !.c = c] : i \in 0..(Len(b.srcs) - 1), c \in {<<>>, <<"text">>}}
  \cup {[Z EXCEPT !.op = "add_to_ignore_list", !.id = i] : i \in 0..(Len(b.srcs) - 1)}
  \cup {[Z EXCEPT !.op = "set_source_root", !.r = r] : r \in RootPool}
  \cup {[Z EXCEPT !.op = "set_file", !.f = <<"f.js">>]}
MapOps(b) ==
       {[Z EXCEPT !.op = "m_set_source_root", !.r = r] : r \in RootPool}
  \cup {[Z EXCEPT !.op = "m_set_source", !.id = i, !.s = s] : i \in 0..(Len(b.srcs) - 1), s \in {A, ABS, <<>>}}
  \cup {[Z EXCEPT !.op = "m_set_source_contents", !.id = i, !.c = c] : i \in 0..(Len(b.srcs) - 1), c \in {<<>>, <<"t2">>}}
  \cup {[Z EXCEPT !.op = "m_saveload"]}

VARIABLES b, hist, nmap, lastret
vars == <<b, hist, nmap, lastret>>
Init == b = BInit /\ hist = <<>> /\ nmap = 0 /\ lastret = 0
BuilderCall == /\ b.mode = "builder" /\ Len(hist) < Depth
               /\ \E o \in (IF Narrow THEN BuilderOpsNarrow(b) ELSE BuilderOps(b)) : LET r == BApply(b, o) IN
                     b' = r.st /\ hist' = Append(hist, o) /\ lastret' = r.ret
               /\ UNCHANGED nmap
Finish == /\ b.mode = "builder"
          /\ b' = BApply(b, [Z EXCEPT !.op = "into_sourcemap"]).st
          /\ hist' = Append(hist, [Z EXCEPT !.op = "into_sourcemap"]) /\ UNCHANGED <<nmap, lastret>>
MapCall == /\ b.mode = "map" /\ nmap < MapDepth
           /\ \E o \in (IF Narrow THEN MapOpsNarrow(b) ELSE MapOps(b)) : b' = BApply(b, o).st /\ hist' = Append(hist, o)
           /\ nmap' = nmap + 1 /\ UNCHANGED lastret
Next == BuilderCall \/ Finish \/ MapCall
Spec == Init /\ [][Next]_vars

\* interning: equal string => first id, new string => next unused id; tables never hold duplicates
\* while only the builder adds to them
InterningTablesDistinct == b.mode = "builder" => NoDup(b.srcs) /\ NoDup(b.names)
IdsStable == \A i \in 1..Len(b.srcs) : b.mode = "builder" => Id(b.srcs, b.srcs[i]) = i - 1
TokensAlwaysResolve == TokensResolve(b)
\* a root is never applied twice: the joined view is a function of raw + root only
JoinIdempotentOnAbsolute == \A i \in 1..Len(b.srcs) : IsAbs(b.srcs[i]) => Sources(b)[i] = b.srcs[i]
View == <<b, nmap>>
EmitCase == (b.mode = "map" /\ nmap = MapDepth) => PrintT("CASE " \o ToJson([op |-> "history", calls |-> hist]))
=============================================================================
