----------------------------- MODULE Trace_E07 -----------------------------
(* E07: one event per case: a builder filled by the logged calls, then      *)
(* load_local_source_contents against the logged file system model.         *)
EXTENDS LoadLocal, Json, IOUtils, TLC
Rec == ndJsonDeserialize(IOEnv.TRACE)
VARIABLES l, bad, free
vars == <<l, bad, free>>
RECURSIVE Run(_, _, _)
Run(b, calls, i) == IF i > Len(calls) THEN b ELSE Run(BApply(b, calls[i]).st, calls, i + 1)
Judge(e) == /\ e.op = "load_local" /\ e.out.k = "ok"
            /\ LET b == Run(BInit, e.args.calls, 1)
                   r == LoadLocal(b, e.args.fs) IN
               /\ e.out.ret = r.ret
               /\ e.out.bobs.contents = Contents(r.st)
               /\ e.out.bobs.sources = b.srcs
Free(e) == FALSE
Init == l = 1 /\ bad = <<>> /\ free = <<>>
Next == /\ l <= Len(Rec)
        /\ l' = l + 1
        /\ bad' = IF Judge(Rec[l]) THEN bad ELSE Append(bad, Rec[l].i)
        /\ free' = IF Free(Rec[l]) THEN Append(free, Rec[l].i) ELSE free
Spec == Init /\ [][Next]_vars
Report == (l = Len(Rec) + 1) => PrintT("RESULT " \o ToJson([events |-> Len(Rec), bad |-> bad, free |-> free]))
=============================================================================
