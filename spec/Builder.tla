------------------------------- MODULE Builder -------------------------------
(***************************************************************************)
(* SourceMapBuilder and the in-place setters of SourceMap as a simple       *)
(* interning model (C13).  Source strings and roots are code-point          *)
(* sequences (the joining rule looks inside them), names/contents/file/ids  *)
(* are opaque strings.  Optional values are <<>> / <<v>>.                    *)
(* Every operation is a function  state x call -> [st, ret]  used both by   *)
(* the model-checked machine (MC_Builder) and by the stateful trace spec.   *)
(***************************************************************************)
EXTENDS Doc

\* id of string x in table tab: the index it got the first time, or the next unused id
Id(tab, x) == LET hits == {i \in 1..Len(tab) : tab[i] = x} IN
              IF hits = {} THEN Len(tab) ELSE (CHOOSE i \in hits : \A j \in hits : i <= j) - 1
Intern(tab, x) == IF Id(tab, x) = Len(tab) THEN Append(tab, x) ELSE tab
NoDup(tab) == \A i, j \in 1..Len(tab) : tab[i] = tab[j] => i = j
PadTo(s, n) == s \o [i \in 1..(IF n > Len(s) THEN n - Len(s) ELSE 0) |-> <<>>]

\* srcs: the source names as they are now;  keys: the strings the sources were INTERNED under (position = id).
\* The two differ only after a builder-side rename (b_set_source, b_strip_prefixes: extension E06).
BInit == [mode |-> "builder", srcs |-> <<>>, keys |-> <<>>, names |-> <<>>, toks |-> <<>>, contents |-> <<>>,
          ignore |-> {}, root |-> <<>>, file |-> <<>>, debug |-> <<>>]

\* projection of the map a builder / map state describes (what accessors must report)
Sources(b) == [i \in 1..Len(b.srcs) |-> Join(b.root, b.srcs[i])]
Contents(b) == [i \in 1..Len(b.srcs) |-> IF i <= Len(b.contents) THEN b.contents[i] ELSE <<>>]

\* strip the first listed prefix (made to end in '/') that the name starts with
NormPrefix(q) == IF q # <<>> /\ q[Len(q)] = SLASH THEN q ELSE q \o <<SLASH>>
StripFirst(s, prefixes) ==
    LET hits == {i \in DOMAIN prefixes : HasPrefix(s, NormPrefix(prefixes[i]))} IN
    IF hits = {} THEN s
    ELSE LET i == CHOOSE x \in hits : \A y \in hits : x <= y IN
         SubSeq(s, Len(NormPrefix(prefixes[i])) + 1, Len(s))

\* o: a logged call [op, s, n, pos, src, name, sid, nid, c, id, r, f, d, prefixes]
BApply(b, o) ==
    CASE o.op = "add_source" ->
            [st |-> [b EXCEPT !.srcs = IF Id(b.keys, o.s) = Len(b.keys) THEN Append(b.srcs, o.s) ELSE b.srcs,
                              !.keys = Intern(b.keys, o.s)], ret |-> Id(b.keys, o.s)]
      [] o.op = "add_name" ->
            [st |-> [b EXCEPT !.names = Intern(b.names, o.n)], ret |-> Id(b.names, o.n)]
      [] o.op = "add" ->
            LET sid == IF o.src = <<>> THEN -1 ELSE Id(b.keys, o.src[1])
                nid == IF o.name = <<>> THEN -1 ELSE Id(b.names, o.name[1])
                t == Tok(o.pos[1], o.pos[2], sid, o.pos[3], o.pos[4], nid, o.pos[5])
            IN [st |-> [b EXCEPT !.srcs = IF o.src = <<>> \/ Id(b.keys, o.src[1]) < Len(b.keys) THEN b.srcs ELSE Append(b.srcs, o.src[1]),
                                 !.keys = IF o.src = <<>> THEN b.keys ELSE Intern(b.keys, o.src[1]),
                                 !.names = IF o.name = <<>> THEN b.names ELSE Intern(b.names, o.name[1]),
                                 !.toks = Append(b.toks, t)],
                ret |-> t]
      [] o.op = "add_raw" ->
            LET t == Tok(o.pos[1], o.pos[2], o.sid, o.pos[3], o.pos[4], o.nid, o.pos[5]) IN
            [st |-> [b EXCEPT !.toks = Append(b.toks, t)], ret |-> t]
      [] o.op = "set_source_contents" ->
            [st |-> [b EXCEPT !.contents = [PadTo(b.contents, Len(b.srcs)) EXCEPT ![o.id + 1] = o.c]], ret |-> 0]
      [] o.op = "add_to_ignore_list" -> [st |-> [b EXCEPT !.ignore = b.ignore \cup {o.id}], ret |-> 0]
      [] o.op = "set_source_root" -> [st |-> [b EXCEPT !.root = o.r], ret |-> 0]
      [] o.op = "set_file" -> [st |-> [b EXCEPT !.file = o.f], ret |-> 0]
      [] o.op = "set_debug_id" -> [st |-> [b EXCEPT !.debug = o.d], ret |-> 0]
      [] o.op = "into_sourcemap" -> [st |-> [b EXCEPT !.mode = "map"], ret |-> 0]
      \* ---- builder-side renames (extension E06, as found) ----
      \* DEVIATION RenamedSourceStaysInternedUnderItsOldName: the name changes, the interning key does not, so adding
      \* the OLD string again yields this id and adding the NEW string yields a fresh one.
      [] o.op = "b_set_source" -> [st |-> [b EXCEPT !.srcs = [b.srcs EXCEPT ![o.id + 1] = o.s]], ret |-> 0]
      [] o.op = "b_strip_prefixes" ->
            [st |-> [b EXCEPT !.srcs = [i \in DOMAIN b.srcs |-> StripFirst(b.srcs[i], o.prefixes)]], ret |-> 0]
      \* ---- in-place setters of the finished map ----
      [] o.op = "m_set_source_root" -> [st |-> [b EXCEPT !.root = o.r], ret |-> 0]
      [] o.op = "m_set_source" -> [st |-> [b EXCEPT !.srcs = [b.srcs EXCEPT ![o.id + 1] = o.s]], ret |-> 0]
      [] o.op = "m_set_source_contents" ->
            [st |-> [b EXCEPT !.contents = [PadTo(b.contents, Len(b.srcs)) EXCEPT ![o.id + 1] = o.c]], ret |-> 0]
      [] o.op = "m_saveload" -> [st |-> b, ret |-> 0]          \* writing and reading back changes nothing

\* what must be observable of a map state: accessors and the serialised form
\* obs = [toks, sources, names, contents, file, root, debug_id, ignore, doc_sources, doc_root]
\* tokens: into_sourcemap orders the added tokens by position; map setters leave them alone; a
\* save/load cycle may only drop exact duplicates (token fidelity of the cycle is C01's subject)
TokensObsOK(b, op, toks) ==
    CASE op = "into_sourcemap" -> Sorted(toks) /\ SameBag(toks, b.toks)
      [] op = "m_saveload" -> Sorted(toks) /\ Len(toks) <= Len(b.toks)
      [] OTHER -> toks = b.toks
MapObsOK(b, op, obs) ==
    /\ TokensObsOK(b, op, obs.toks)
    /\ obs.sources = Sources(b)                               \* raw name joined with the current root
    /\ obs.names = b.names
    /\ obs.contents = Contents(b)
    /\ obs.file = b.file /\ obs.root = b.root /\ obs.debug_id = b.debug
    /\ SeqRange(obs.ignore) = b.ignore
    /\ obs.doc_sources = b.srcs                               \* serialisation writes the raw names ...
    /\ obs.doc_root = b.root                                  \* ... plus the root: never a prefixed name
\* what the builder's own getters must report while it is being filled
\* bobs = [file, root, sources, contents, has, beyond]
BuilderObsOK(b, bobs) ==
    /\ bobs.file = b.file /\ bobs.root = b.root
    /\ bobs.sources = b.srcs                                  \* raw names: the root is applied by into_sourcemap
    /\ bobs.contents = Contents(b)
    /\ bobs.has = [i \in 1..Len(b.srcs) |-> Contents(b)[i] # <<>>]
    /\ bobs.beyond = <<>>                                     \* get_source(count) is None
\* every token resolves to exactly the strings it was added with (ids point at them)
TokensResolve(b) == \A i \in 1..Len(b.toks) :
    /\ Src(b.toks[i]) < Len(b.srcs) /\ Nm(b.toks[i]) < Len(b.names)
=============================================================================
