----------------------------- MODULE Trace_C05 -----------------------------
(* C05: stateful trace validation of the API life cycle.  Each case is one   *)
(* input (bytes); every recorded step (detect, decode, query, serialize,    *)
(* redecode, rewrite, flatten) must be a step Lifecycle!LStep allows from   *)
(* the current state: never panic / timeout / alloc, the serialised form of *)
(* a decoded map decodes again as the same kind, and where the fault model  *)
(* predicts the outcome class of decode it must be that.                    *)
EXTENDS Lifecycle, Json, IOUtils
Rec == ndJsonDeserialize(IOEnv.TRACE)
VARIABLES l, bad, free, st
vars == <<l, bad, free, st>>
Init == l = 1 /\ bad = <<>> /\ free = <<>> /\ st = LInit
Next == /\ l <= Len(Rec)
        /\ LET e == Rec[l]
               s0 == IF e.first THEN LInit ELSE st
               s1 == LStep(s0, [op |-> e.op, out |-> e.out.out, kind |-> e.out.kind], e.args.predict)
           IN /\ bad' = IF s1.phase = "REJECT" THEN Append(bad, e.i) ELSE bad
              /\ st' = IF s1.phase = "REJECT" THEN s0 ELSE s1
        /\ l' = l + 1 /\ UNCHANGED free
Spec == Init /\ [][Next]_vars
Report == (l = Len(Rec) + 1) => PrintT("RESULT " \o ToJson([events |-> Len(Rec), bad |-> bad, free |-> free]))
=============================================================================
