----------------------------- MODULE NameResolve -----------------------------
(***************************************************************************)
(* Function-name resolution (C17).  Minified text = lines of code points.   *)
(* Character classes are fixed here for a CLOSED alphabet (the harness      *)
(* generates nothing else): ASCII letters, '$', '_' start an identifier and *)
(* continue it, digits and the joiners U+200C/U+200D continue only, the     *)
(* sampled non-ASCII letters e-acute, U+3B8F and U+1D4B3 (astral) start and *)
(* continue, and so do one letter-number (U+2160, Nl) and the Other_ID_Start*)
(* characters U+2118, U+212E, U+1885; combining marks (U+0301, U+0345,      *)
(* U+093E), the Other_ID_Continue characters U+00B7 and U+0387 and the      *)
(* connector U+203F continue only (ECMAScript: ID_Start / ID_Continue);     *)
(* blank characters separate words; everything else (e.g. U+00B2) ends one. *)
(***************************************************************************)
EXTENDS MapModel

Letters == (65..90) \cup (97..122) \cup {36, 95, 233, 15247, 119987} \cup {8544, 8472, 8494, 6277}
ContinueOnly == (48..57) \cup {8204, 8205} \cup {769, 837, 2366, 183, 903, 8255}
IdStart(c) == c \in Letters
IdContinue(c) == c \in Letters \/ c \in ContinueOnly
Blank(c) == c \in {9, 10, 11, 12, 13, 32, 133, 160, 5760, 8232, 8233, 8239, 8287, 12288} \/ c \in 8192..8202   \* Unicode White_Space
U16w(c) == IF c >= 65536 THEN 2 ELSE 1
FUNCTION == <<102, 117, 110, 99, 116, 105, 111, 110>>

\* longest identifier prefix of word w, or <<>> (none) if w does not start one
RECURSIVE ContLen(_, _)
ContLen(w, i) == IF i <= Len(w) /\ IdContinue(w[i]) THEN ContLen(w, i + 1) ELSE i - 1
IdentPrefix(w) == IF w = <<>> \/ ~IdStart(w[1]) THEN <<>> ELSE << SubSeq(w, 1, ContLen(w, 2)) >>
ValidIdent(w) == IdentPrefix(w) = <<w>>

\* index (1-based) of the first character whose UTF-16 offset is >= col; Len+1 if none
RECURSIVE CharAt(_, _, _, _)
CharAt(line, col, i, u) == IF i > Len(line) \/ u >= col THEN i ELSE CharAt(line, col, i + 1, u + U16w(line[i]))
RECURSIVE SkipBlank(_, _)
SkipBlank(line, i) == IF i <= Len(line) /\ Blank(line[i]) THEN SkipBlank(line, i + 1) ELSE i
RECURSIVE WordEnd(_, _)
WordEnd(line, i) == IF i <= Len(line) /\ ~Blank(line[i]) THEN WordEnd(line, i + 1) ELSE i - 1
\* text of a token at UTF-16 column col of the line: <<>> or <<identifier>>
TokenText(line, col) ==
    LET i == CharAt(line, col, 1, 0) IN
    IF i > Len(line) THEN <<>>
    ELSE LET j == SkipBlank(line, i) IN
         IF j > Len(line) THEN <<>> ELSE IdentPrefix(SubSeq(line, j, WordEnd(line, j)))
LineOf(lines, l) == IF l + 1 <= Len(lines) THEN lines[l + 1] ELSE <<>>
TextOf(lines, t) == TokenText(LineOf(lines, Dl(t)), Dc(t))

\* the token the lookup lands on (tokens strictly ordered): 0 = none
Landing(ts, q) == LET c == {i \in DOMAIN ts : PosLe(Pos(ts[i]), q)} IN
                  IF c = {} THEN 0 ELSE CHOOSE x \in c : \A y \in c : y <= x
\* walk back from token i0: steps k = 0, 1, ... visit tokens i0 - k.  The first k at which the
\* token's text is the minified name and the preceding token's text is the keyword 'function'
FirstPair(lines, ts, i0, name) ==
    LET ks == {k \in 0..(i0 - 2) : TextOf(lines, ts[i0 - k]) = <<name>> /\ TextOf(lines, ts[i0 - k - 1]) = <<FUNCTION>>} IN
    IF ks = {} THEN -1 ELSE CHOOSE k \in ks : \A j \in ks : k <= j
NameOf(names, t) == IF Nm(t) = -1 \/ Nm(t) >= Len(names) THEN <<>> ELSE <<names[Nm(t) + 1]>>

\* a column strictly inside a surrogate pair does not denote a character position: the statement
\* ("token text is read at UTF-16 columns") does not define the text of such a token, and the code
\* reads it differently on its forward scan (after the pair) and on its cached backward walk (at the
\* pair).  Resolutions whose walk meets such a token are left free.
RECURSIVE MidPairAt(_, _, _, _)
MidPairAt(line, col, i, u) == IF i > Len(line) \/ u >= col THEN FALSE
                              ELSE IF u + U16w(line[i]) > col THEN TRUE
                              ELSE MidPairAt(line, col, i + 1, u + U16w(line[i]))
MidPair(lines, t) == MidPairAt(LineOf(lines, Dl(t)), Dc(t), 1, 0)
WalkMeetsMidPair(lines, ts, i0) == \E k \in 0..(i0 - 1) : k <= 128 /\ MidPair(lines, ts[i0 - k])

\* the relation: a pair entirely within the 127 tokens at and before the landing token MUST be
\* found, a pair that needs a token more than 128 back MUST NOT, the single boundary position in
\* between is left free (the crate's lookup reports an index one too high for inexact hits, which
\* costs one unit of the walk budget; the statement's "at most 128" does not decide that case)
ResolveOK(lines, ts, names, q, name, ret) ==
    LET i0 == Landing(ts, q) IN
    IF i0 = 0 \/ ~ValidIdent(name) THEN ret = <<>>
    ELSE LET k == FirstPair(lines, ts, i0, name) IN
         IF k = -1 THEN ret = <<>>
         ELSE IF k + 1 <= 126 THEN ret = NameOf(names, ts[i0 - k])
         ELSE IF k + 1 >= 128 THEN ret = <<>>
         ELSE ret = <<>> \/ ret = NameOf(names, ts[i0 - k])
=============================================================================
