//! C10 — adjust_mappings
use crate::doc::*;
use crate::maps::raw_tokens;
use crate::*;
use serde_json::{json, Value};
use sourcemap::SourceMap;
use std::sync::Arc;

fn mk(toks: &Value, shuffle_seed: u64) -> SourceMap {
    mk_named(toks, shuffle_seed, "f.js")
}
/// the same, with a chosen file name (it may be spelled like one of the sources "s0", "s1", ...)
fn mk_named(toks: &Value, shuffle_seed: u64, file: &str) -> SourceMap {
    let mut raw = raw_tokens(&json!({"toks": toks}));
    if shuffle_seed != 0 {
        let mut r = Rng::new(shuffle_seed);
        crate::c02::shuffle(&mut r, &mut raw);
    }
    let nsrc = raw.iter().filter(|t| t.src_id != !0).map(|t| t.src_id + 1).max().unwrap_or(0);
    let nnm = raw.iter().filter(|t| t.name_id != !0).map(|t| t.name_id + 1).max().unwrap_or(0);
    SourceMap::new(Some(Arc::from(file)), raw,
                   (0..nnm).map(|i| Arc::from(format!("n{}", i))).collect(),
                   (0..nsrc).map(|i| Arc::from(format!("s{}", i))).collect(),
                   Some((0..nsrc).map(|i| if i % 2 == 0 { Some(Arc::from(format!("content {}", i))) } else { None }).collect()))
}

pub fn run(case: &Value, em: &mut Emitter) {
    let seed = case.get("shuffle").and_then(|s| s.as_u64()).unwrap_or(0);
    let out = guard(|| {
        // the file name of the map may coincide with a source name of either map: it has no bearing on the composition
        let mut orig = mk_named(&case["orig"], seed, ["f.js", "s0", "s1", "s2"][(seed % 4) as usize]);
        let mut adj = mk(&case["adj"], seed.wrapping_mul(31));
        // what the two maps say about themselves (debug id, file, root) has no bearing on the composition: equal,
        // different or absent on either side
        let ids = ["11111111-1111-1111-1111-111111111111", "a0b1c2d3-e4f5-4a6b-8c7d-9e0f1a2b3c4d"];
        match seed % 5 { 0 => { orig.set_debug_id(Some(ids[0].parse().unwrap())); adj.set_debug_id(Some(ids[0].parse().unwrap())); }
                         1 => { orig.set_debug_id(Some(ids[0].parse().unwrap())); adj.set_debug_id(Some(ids[1].parse().unwrap())); }
                         2 => { adj.set_debug_id(Some(ids[1].parse().unwrap())); adj.set_source_root(Some("r")); }
                         3 => { orig.set_source_root(Some("r/")); }
                         _ => {} }
        let before = (proj_sm(&orig)["sources"].clone(), proj_sm(&orig)["names"].clone(), proj_sm(&orig)["contents"].clone());
        orig.adjust_mappings(&adj);
        let p = proj_sm(&orig);
        let after = (p["sources"].clone(), p["names"].clone(), p["contents"].clone());
        json!({"k": "ok", "toks": p["toks"], "tables_untouched": before == after})
    });
    em.emit("adjust", json!({"orig": case["orig"], "adj": case["adj"]}), out);
}

/// long runs of original tokens that no adjustment covers, then an adjustment starting strictly inside a stretch;
/// optionally very wide columns (>= 65536)
fn gen_long(rng: &mut Rng) -> Value {
    let scale: i64 = if rng.chance(1, 2) { 1 } else { 7001 };
    let n = 70 + rng.below(130) as i64;
    let nlines = 1 + rng.below(3) as i64;
    let mut orig = vec![];
    for k in 0..n {
        let l = k * nlines / n;
        orig.push(json!([l, (k % (n / nlines + 1)) * 3 * scale + if k % 5 == 0 { 1 } else { 0 }, k % 2, k, 50 + k, -1, 0]));
    }
    orig.sort_by_key(|t| (t[0].as_i64().unwrap(), t[1].as_i64().unwrap()));
    orig.dedup_by_key(|t| (t[0].as_i64().unwrap(), t[1].as_i64().unwrap()));
    let mut adj = vec![];
    for _ in 0..1 + rng.below(3) {
        let t = rng.pick(&orig[orig.len() * 2 / 3..]).clone();
        let (l, c) = (t[0].as_i64().unwrap(), t[1].as_i64().unwrap() + rng.range(0, 3));   // at the start of, strictly inside, or at the end of a stretch
        let (dl, dc) = (rng.range(0, 2), rng.range(0, 5) * scale);
        adj.push(json!([l + dl, c + dc, 0, l, c, -1, if rng.chance(1, 4) { 1 } else { 0 }]));
    }
    adj.sort_by_key(|t| (t[3].as_i64().unwrap(), t[4].as_i64().unwrap()));
    adj.dedup_by_key(|t| (t[3].as_i64().unwrap(), t[4].as_i64().unwrap()));
    json!({"op": "adjust", "orig": orig, "adj": adj, "shuffle": 1 + rng.below(1000)})
}

pub fn gen(rng: &mut Rng, size: usize) -> Value {
    if rng.chance(1, 12) { return gen_long(rng); }
    let lines = 1 + rng.below(if size > 5 { 50 } else { 4 }) as i64;
    let cols = 2 + rng.below(if size > 5 { 50 } else { 12 }) as i64;
    let dups = rng.chance(1, 3);
    let sorted_positions = |rng: &mut Rng, n: u64| -> Vec<(i64, i64)> {
        let mut v: Vec<(i64, i64)> = (0..n).map(|_| (rng.range(0, lines - 1), rng.range(0, cols - 1))).collect();
        v.sort();
        if !dups { v.dedup(); }
        v
    };
    let no = rng.below((size * 8) as u64 + 1);
    let na = rng.below((size * 8) as u64 + 1);
    let orig: Vec<Value> = sorted_positions(rng, no).iter().enumerate()
        .map(|(k, (l, c))| json!([l, c, k % 3, k, 100 + k, if k % 4 == 0 { 0 } else { -1 }, if k % 5 == 0 { 1 } else { 0 }])).collect();
    let adj: Vec<Value> = sorted_positions(rng, na).iter()
        .map(|(l, c)| {
            let (dl, dc) = (rng.range(0, 3), rng.range(0, 9));
            // an adjustment token need not name a source (or may name another one, or a name): its stretch is the same
            let (src, nm) = match rng.below(8) { 0 => (-1, -1), 1 => (1, -1), 2 => (0, 0), _ => (0, -1) };
            // ... nor does its range flag matter (the flag of a composed token is the ORIGINAL token's)
            json!([l + dl, c + dc, src, l, c, nm, if rng.chance(1, 3) { 1 } else { 0 }])
        }).collect();
    json!({"op": "adjust", "orig": orig, "adj": adj, "shuffle": 1 + rng.below(1000)})
}
