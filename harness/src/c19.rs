//! C19 — make_relative_path
use crate::*;
use serde_json::{json, Value};

const POOL: &[&str] = &["?", "a", "bb", "c.js", "d", "e e", "ü", "g.map", "h"];

fn path_string(comps: &Value, abs: bool, sep: i64) -> String {
    let s = if sep == 0 { "/" } else { "\\" };
    let body: Vec<&str> = comps.as_array().unwrap().iter().map(|c| POOL[c.as_u64().unwrap() as usize]).collect();
    format!("{}{}", if abs { s } else { "" }, body.join(s))
}

pub fn run(case: &Value, em: &mut Emitter) {
    let abs = case["abs"].as_bool().unwrap();
    let sep = case["sep"].as_i64().unwrap();
    let base = path_string(&case["base"], abs, sep);
    let target = path_string(&case["target"], abs, sep);
    let out = guard(|| {
        let r = sourcemap::make_relative_path(&base, &target);
        let mut comps: Vec<i64> = r.split(|c| c == '/' || c == '\\').map(|c| match c {
            ".." => -1,
            "." => -2,
            "" => -3,
            name => POOL.iter().position(|p| *p == name).map(|p| p as i64).unwrap_or(-9),
        }).collect();
        // a trailing separator ("../") yields an empty last component; separators are not components
        while comps.last() == Some(&-3) && comps.len() > 1 { comps.pop(); }
        json!({"k": "ok", "comps": comps, "text": r})
    });
    em.emit("rel", json!({"base": case["base"], "target": case["target"], "abs": abs, "sep": sep}), out);
}

pub fn gen(rng: &mut Rng, _size: usize) -> Value {
    let n = 2 + rng.below(4) as usize; // pool of names used in this case: small, so prefixes are shared
    let long = rng.chance(1, 15);
    let mut path = |rng: &mut Rng| -> Vec<u64> { (0..1 + rng.below(if long { 90 } else { 6 })).map(|_| 1 + rng.below(n as u64)).collect() };
    let base = path(rng);
    let mut target = path(rng);
    if rng.chance(1, 3) {
        // force a shared prefix of random length
        let k = rng.below(base.len() as u64 + 1) as usize;
        for i in 0..k.min(target.len()) { target[i] = base[i]; }
    }
    json!({"op": "rel", "base": base, "target": target, "abs": rng.chance(1, 2), "sep": rng.below(2)})
}
