//! C19 — make_relative_path
use crate::*;
use serde_json::{json, Value};

// The abstract names 1, 2, 3, ... of the specification are DISTINCT atoms; they are concretised by strings that are
// easy to confuse: equal up to letter case, one a proper prefix of the other, composed vs decomposed accents.
const POOL: &[&str] = &["?", "a", "A", "ab", "a.js", "A.js", "ü", "u\u{308}", "g.map", "h", "c#", "q?x", "50%", "a b", "k=v&w", "x+y", "~", "..."];

fn path_string(comps: &Value, abs: bool, sep: i64, dbl: u64) -> String {
    // sep 0: '/', 1: '\\', 2: both kinds alternating within one path, 3: alternating the other way
    let pick = |k: usize| match sep { 0 => "/", 1 => "\\", 2 => if k % 2 == 0 { "/" } else { "\\" }, _ => if k % 2 == 0 { "\\" } else { "/" } };
    // dbl: which separators are written TWICE ("http://host/a", "/srv//www"): a run of separators is one separator
    let mut out = String::new();
    if abs { out.push_str(pick(1)); if dbl & 1 == 1 { out.push_str(pick(1)); } }
    for (k, c) in comps.as_array().unwrap().iter().enumerate() {
        if k > 0 { out.push_str(pick(k)); if (dbl >> (k % 16)) & 1 == 1 { out.push_str(pick(k + 1)); } }
        out.push_str(POOL[c.as_u64().unwrap() as usize]);
    }
    out
}

pub fn run(case: &Value, em: &mut Emitter) {
    let abs = case["abs"].as_bool().unwrap();
    let sep = case["sep"].as_i64().unwrap();
    let (db, dt) = (case.get("dbl_base").and_then(|x| x.as_u64()).unwrap_or(0), case.get("dbl_target").and_then(|x| x.as_u64()).unwrap_or(0));
    let base = path_string(&case["base"], abs, sep, db);
    let target = path_string(&case["target"], abs, sep, dt);
    let alias = (base.len() + target.len()) % 2 == 0;
    let out = guard(|| {
        // when one argument is a textual prefix of the other, both are handed over as slices of ONE buffer
        let r = if alias && base.starts_with(&target) { sourcemap::make_relative_path(&base, &base[..target.len()]) }
                else if alias && target.starts_with(&base) { sourcemap::make_relative_path(&target[..base.len()], &target) }
                else { sourcemap::make_relative_path(&base, &target) };
        let mut comps: Vec<i64> = r.split(|c| c == '/' || c == '\\').map(|c| match c {
            ".." => -1,
            "." => -2,
            "" => -3,
            name => POOL.iter().position(|p| *p == name).map(|p| p as i64).unwrap_or(-9),
        }).collect();
        // a trailing separator ("../") yields an empty last component; separators are not components
        while comps.last() == Some(&-3) && comps.len() > 1 { comps.pop(); }
        json!({"k": "ok", "comps": comps, "text": r})
    });
    em.emit("rel", json!({"base": case["base"], "target": case["target"], "abs": abs, "sep": sep, "dbl": [db, dt]}), out);
}

pub fn gen(rng: &mut Rng, _size: usize) -> Value {
    let n = 2 + rng.below(16) as usize; // pool of names used in this case: small, so prefixes are shared
    let long = rng.chance(1, 15);
    let mut path = |rng: &mut Rng| -> Vec<u64> { (0..1 + rng.below(if long { 90 } else { 6 })).map(|_| 1 + rng.below(n as u64)).collect() };
    let base = path(rng);
    let mut target = path(rng);
    if rng.chance(1, 3) {
        // force a shared prefix of random length
        let k = rng.below(base.len() as u64 + 1) as usize;
        for i in 0..k.min(target.len()) { target[i] = base[i]; }
    }
    // one case in four writes some separators twice (the same ones in both paths, or independently)
    let (db, dt) = if rng.chance(1, 4) { let m = 1 << rng.below(5) | if rng.chance(1, 2) { 1 << rng.below(8) } else { 0 }; (m, if rng.chance(2, 3) { m } else { 1 << rng.below(6) }) } else { (0, 0) };
    json!({"op": "rel", "base": base, "target": target, "abs": rng.chance(1, 2), "sep": rng.below(4), "dbl_base": db, "dbl_target": dt})
}
