//! C14 — Hermes function maps: scope of every token and of every bytecode offset
use crate::c09::gen_hermes_doc;
use crate::doc::*;
use crate::maps::own_mappings;
use crate::*;
use serde_json::{json, Value};
use sourcemap::{DecodedMap, SourceMapHermes};

fn answers(h: &SourceMapHermes, offsets: &[u32]) -> (Value, Value) {
    (Value::Array(h.tokens().map(|t| opt_str(h.get_scope_for_token(t))).collect()),
     Value::Array(offsets.iter().map(|&o| opt_str(h.get_original_function_name(o))).collect()))
}

pub fn run(case: &Value, em: &mut Emitter) {
    let doc = if case.get("doc").is_some() { normalise_doc(&case["doc"]) } else {
        // TLC case: one function-map text; tokens of source 0 on a grid of original positions
        let mut toks = vec![];
        let mut col = 0;
        for sl in 0..4 { for sc in [0, 2, 4, 6, 9] { toks.push(json!([0, col, 0, sl, sc, -1, 0])); col += 3; } }
        toks.push(json!([0, col, 1, 0, 0, -1, 0]));
        toks.push(json!([0, col + 2, -1, 0, 0, -1, 0]));
        normalise_doc(&json!({"version": [3], "sources": [[[cps("s0.js")], [cps("s1.js")]]], "names": [[]],
                              "mappings": [own_mappings(&toks)],
                              "xfs": [[[[{"names": ["f0", "f1", "f2"], "mappings": case["fn"]}]], []]]}))
    };
    let maxcol = 3 * 22 + 6;
    let offsets: Vec<u32> = if case.get("doc").is_some() { (0..40).collect() } else { (0..maxcol).step_by(2).collect() };
    let bytes = write_doc(&doc);
    let out = guard(|| match sourcemap::decode_slice(&bytes) {
        Ok(DecodedMap::Hermes(h)) => {
            let (scopes, fnames) = answers(&h, &offsets);
            let dm = DecodedMap::Hermes(h.clone());
            let line1 = opt_str(dm.get_original_function_name(1, 0, None, None));
            let mut b2 = vec![];
            h.to_writer(&mut b2).expect("to_writer");
            let (scopes2, fnames2) = match sourcemap::decode_slice(&b2) {
                Ok(DecodedMap::Hermes(h2)) => answers(&h2, &offsets),
                _ => (json!("lost"), json!("lost")),
            };
            json!({"k": "ok", "p": proj_map(&dm), "fnames": fnames, "line1": line1, "scopes2": scopes2, "fnames2": fnames2, "scopes": scopes})
        }
        Ok(_) => json!({"k": "wrongkind"}),
        Err(e) => json!({"k": "err", "e": format!("{:?}", e)}),
    });
    em.emit("hermes", json!({"doc": doc, "offsets": offsets}), out);
}

pub fn gen(rng: &mut Rng, size: usize) -> Value {
    json!({"op": "hermes", "doc": gen_hermes_doc(rng, size)})
}
