//! C13 — builder and in-place setters: one real builder (then map) per case, one event per call
use crate::doc::*;
use crate::maps::parse_doc;
use crate::*;
use serde_json::{json, Value};
use sourcemap::{SourceMap, SourceMapBuilder};

enum Obj { B(Box<SourceMapBuilder>), M(Box<SourceMap>), Gone }

fn ocps(v: &Value) -> Option<String> { v.as_array().and_then(|a| a.first()).map(cps_to_string) }
fn ostr(v: &Value) -> Option<String> { v.as_array().and_then(|a| a.first()).map(|s| s.as_str().unwrap().to_string()) }
fn u(v: &Value) -> u32 { v.as_u64().unwrap() as u32 }
fn oid(v: &Value) -> Option<u32> { let x = v.as_i64().unwrap(); if x < 0 { None } else { Some(x as u32) } }
fn raw_json(r: &sourcemap::RawToken) -> Value {
    json!([num(r.dst_line), num(r.dst_col), idx(r.src_id), num(r.src_line), num(r.src_col), idx(r.name_id), r.is_range as u8])
}

/// what the builder's own getters report
fn observe_builder(b: &SourceMapBuilder) -> Value {
    let mut n = 0u32;
    while b.get_source(n).is_some() { n += 1; }
    json!({"file": opt_str(b.get_file()), "root": match b.get_source_root() { Some(r) => json!([cps(r)]), None => json!([]) },
           "sources": (0..n).map(|i| cps(b.get_source(i).unwrap())).collect::<Vec<_>>(),
           "contents": (0..n).map(|i| opt_str(b.get_source_contents(i))).collect::<Vec<_>>(),
           "has": (0..n).map(|i| b.has_source_contents(i)).collect::<Vec<_>>(),
           "beyond": match b.get_source(n) { Some(s) => json!([cps(s)]), None => json!([]) }})
}

fn observe(sm: &SourceMap) -> Value {
    let mut p = proj_sm(sm);
    let mut bytes = vec![];
    sm.to_writer(&mut bytes).expect("to_writer");
    let d = parse_doc(&bytes);
    let raw: Vec<Value> = d["sources"][0].as_array().map(|a| a.iter().map(|e| e.as_array().and_then(|x| x.first().cloned()).unwrap_or(json!([]))).collect()).unwrap_or_default();
    p.insert("doc_sources".into(), json!(raw));
    p.insert("doc_root".into(), d["root"].clone());
    Value::Object(p)
}

/// fill every field the spec's BApply may look at
pub fn full_call(c: &Value) -> Value {
    let mut o = json!({"op": c["op"], "s": [], "n": "", "pos": [0, 0, 0, 0, 0], "src": [], "name": [], "sid": -1, "nid": -1,
                       "c": [], "id": 0, "r": [], "f": [], "d": [], "prefixes": []});
    for (k, v) in c.as_object().unwrap() { o[k] = v.clone(); }
    o
}

pub fn run(case: &Value, em: &mut Emitter) {
    let mut obj = Obj::B(Box::new(SourceMapBuilder::new(None)));
    for c in case["calls"].as_array().unwrap() {
        let o = full_call(c);
        let op = o["op"].as_str().unwrap().to_string();
        let taken = std::mem::replace(&mut obj, Obj::Gone);
        let mut next = Obj::Gone;
        let out = guard(|| {
            match taken {
                Obj::B(mut b) => {
                    let mut ret = json!(0);
                    let mut obs = json!([]);
                    match op.as_str() {
                        "add_source" => ret = json!(b.add_source(&cps_to_string(&o["s"]))),
                        "add_name" => ret = json!(b.add_name(o["n"].as_str().unwrap())),
                        "add" => {
                            let p = &o["pos"];
                            let r = b.add(u(&p[0]), u(&p[1]), u(&p[2]), u(&p[3]), ocps(&o["src"]).as_deref(), ostr(&o["name"]).as_deref(), u(&p[4]) != 0);
                            ret = raw_json(&r);
                        }
                        "add_raw" => {
                            let p = &o["pos"];
                            let r = b.add_raw(u(&p[0]), u(&p[1]), u(&p[2]), u(&p[3]), oid(&o["sid"]), oid(&o["nid"]), u(&p[4]) != 0);
                            ret = raw_json(&r);
                        }
                        "set_source_contents" => b.set_source_contents(u(&o["id"]), ostr(&o["c"]).as_deref()),
                        "add_to_ignore_list" => b.add_to_ignore_list(u(&o["id"])),
                        "set_source_root" => b.set_source_root(ocps(&o["r"])),
                        "set_file" => b.set_file(ostr(&o["f"])),
                        "set_debug_id" => b.set_debug_id(ostr(&o["d"]).map(|s| s.parse().unwrap())),
                        "b_set_source" => b.set_source(u(&o["id"]), &cps_to_string(&o["s"])),
                        "b_strip_prefixes" => {
                            let ps: Vec<String> = o["prefixes"].as_array().unwrap().iter().map(cps_to_string).collect();
                            b.strip_prefixes(&ps);
                        }
                        "add_token" => {
                            // the token of a one-token donor map carrying the given source / name: logged as the `add` it stands for
                            let p = &o["pos"];
                            let donor = SourceMap::new(None, vec![sourcemap::RawToken { dst_line: u(&p[0]), dst_col: u(&p[1]), src_line: u(&p[2]), src_col: u(&p[3]),
                                src_id: if o["src"].as_array().unwrap().is_empty() { !0 } else { 0 }, name_id: if o["name"].as_array().unwrap().is_empty() { !0 } else { 0 }, is_range: u(&p[4]) != 0 }],
                                ostr(&o["name"]).into_iter().map(std::sync::Arc::from).collect(), ocps(&o["src"]).into_iter().map(std::sync::Arc::from).collect(), None);
                            let r = b.add_token(&donor.get_token(0).unwrap(), true);
                            ret = raw_json(&r);
                        }
                        "into_sourcemap" => {
                            let sm = b.into_sourcemap();
                            obs = json!([observe(&sm)]);
                            next = Obj::M(Box::new(sm));
                            return json!({"k": "ok", "ret": ret, "obs": obs, "bobs": []});
                        }
                        _ => return json!({"k": "badop"}),
                    }
                    let bobs = json!([observe_builder(&b)]);
                    next = Obj::B(b);
                    json!({"k": "ok", "ret": ret, "obs": obs, "bobs": bobs})
                }
                Obj::M(mut m) => {
                    match op.as_str() {
                        "m_set_source_root" => m.set_source_root(ocps(&o["r"])),
                        "m_set_source" => m.set_source(u(&o["id"]), &cps_to_string(&o["s"])),
                        "m_set_source_contents" => m.set_source_contents(u(&o["id"]), ostr(&o["c"]).as_deref()),
                        "m_saveload" => {
                            let mut bytes = vec![];
                            m.to_writer(&mut bytes).expect("to_writer");
                            m = Box::new(SourceMap::from_slice(&bytes).expect("from_slice"));
                        }
                        _ => return json!({"k": "badop"}),
                    }
                    let obs = json!([observe(&m)]);
                    next = Obj::M(m);
                    json!({"k": "ok", "ret": 0, "obs": obs, "bobs": []})
                }
                Obj::Gone => json!({"k": "gone"}),
            }
        });
        obj = next;
        let mut o = o;
        if op == "add_token" { o["op"] = json!("add"); }
        em.emit(&op, o, out);
    }
}

const SRC: &[&str] = &["a", "", "/abs/x", "http://h/y", "https://h/z", "b/c.js", "a", "httpx", "ü", "d", "e", "/", "f//", "g", "http:"];
const ROOT: &[&str] = &["", "r", "r/", "r//", "/", "//", "http://cdn/", "x", "x/", "x//", "./rel", "webpack://", "webpack:///"];
// (the last two are distinct strings with the same 64-bit FxHash, the hash the crate's tables use: a pair found by a
// sub-agent's collision search in round 5 -- a table keyed by the hash instead of the string confuses them)
const NAMES: &[&str] = &["n", "", "m", "n", "𝒳", "k", "\"q\"", "handleResponseOk", "handttdozponsnqn"];

/// extension E06: C13's histories with builder-side renames (set_source, strip_prefixes) and add_token mixed in
pub fn gen_e06(rng: &mut Rng, size: usize) -> Value {
    let mut case = gen(rng, size);
    let calls = case["calls"].as_array_mut().unwrap();
    let cut = calls.iter().position(|c| c["op"] == "into_sourcemap").unwrap();
    let mut out: Vec<Value> = vec![];
    let mut nsrc = 0usize;   // lower bound of the number of sources registered so far (renames keep ids in range)
    let mut seen: Vec<Value> = vec![];
    for (k, c) in calls.iter().enumerate() {
        if k < cut {
            let s = if c["op"] == "add_source" { Some(c["s"].clone()) } else if c["op"] == "add" && !c["src"].as_array().unwrap().is_empty() { Some(c["src"][0].clone()) } else { None };
            if let Some(s) = s { if !seen.contains(&s) { seen.push(s); nsrc += 1; } }
            if c["op"] == "add" && rng.chance(1, 3) { let mut t = c.clone(); t["op"] = json!("add_token"); out.push(t); continue; }
        }
        out.push(c.clone());
        if k < cut && nsrc > 0 && rng.chance(1, 5) {
            if rng.chance(1, 2) {
                let s = if rng.chance(1, 2) { rng.pick(&seen).clone() } else { cps(&gen_src_name(rng)) };
                out.push(json!({"op": "b_set_source", "id": rng.below(nsrc as u64), "s": s}));
            } else {
                let a = rng.pick(&seen).as_array().unwrap().clone();
                let kk = rng.below(a.len() as u64 + 1) as usize;
                out.push(json!({"op": "b_strip_prefixes", "prefixes": [Value::Array(a[..kk].to_vec()), cps("r")]}));
            }
        }
    }
    case["calls"] = json!(out);
    case
}

pub fn gen(rng: &mut Rng, size: usize) -> Value {
    // the string pools of this case: the fixed ones; generated names of mixed UTF-8 width and scheme-like
    // prefixes; or MANY distinct sources (18..80: more than any small-table threshold), revisited
    let many = rng.chance(1, 12);
    let srcs: Vec<String> = if many { (0..18 + rng.below(62)).map(|i| format!("{}{}", gen_src_name(rng), i)).collect() }
        else if rng.chance(1, 3) { (0..2 + rng.below(8)).map(|_| gen_src_name(rng)).collect() }
        else { SRC.iter().map(|s| s.to_string()).collect() };
    let mut srcs = srcs;
    let roots: Vec<String> = if rng.chance(1, 3) { (0..1 + rng.below(4)).map(|_| gen_root_name(rng)).collect() } else { ROOT.iter().map(|s| s.to_string()).collect() };
    // names composed out of the roots in play: a name that begins with a root, equals it, or repeats it
    if !many && rng.chance(1, 3) {
        for _ in 0..1 + rng.below(3) {
            let r = rng.pick(&roots).clone();
            let bare = r.trim_end_matches('/').to_string();
            let tail = rng.pick(&srcs).clone();
            srcs.push(match rng.below(4) { 0 => format!("{}/{}", bare, tail), 1 => bare.clone(), 2 => format!("{}/{}/{}", bare, bare, tail), _ => format!("{}{}", r, tail) });
        }
    }
    let ncalls = if many { srcs.len() * 2 + rng.below(40) as usize } else { 1 + rng.below((size * 12) as u64) as usize };
    let mut calls = vec![];
    let mut distinct: Vec<String> = vec![]; // model-free bookkeeping only to keep ids in range
    for _ in 0..ncalls {
        let pos = json!([rng.below(5), rng.below(40), rng.below(30), rng.below(30), rng.below(6) / 5]);
        calls.push(match rng.below(12) {
            0 | 1 => { let s = rng.pick(&srcs).clone(); if !distinct.contains(&s) { distinct.push(s.clone()); } json!({"op": "add_source", "s": cps(&s)}) }
            2 => json!({"op": "add_name", "n": *rng.pick(NAMES)}),
            3 | 4 | 5 => {
                let src = if rng.chance(4, 5) { let s = rng.pick(&srcs).clone(); if !distinct.contains(&s) { distinct.push(s.clone()); } json!([cps(&s)]) } else { json!([]) };
                let name = if rng.chance(1, 2) { json!([*rng.pick(NAMES)]) } else { json!([]) };
                json!({"op": "add", "pos": pos, "src": src, "name": name})
            }
            6 => json!({"op": "add_raw", "pos": pos, "sid": if distinct.is_empty() { -1 } else { rng.range(-1, distinct.len() as i64 - 1) }, "nid": -1}),
            7 if !distinct.is_empty() => json!({"op": "set_source_contents", "id": rng.below(distinct.len() as u64), "c": if rng.chance(1, 4) { json!([]) } else { json!([*rng.pick(NAMES)]) }}),
            8 if !distinct.is_empty() => json!({"op": "add_to_ignore_list", "id": rng.below(distinct.len() as u64)}),
            9 => json!({"op": "set_source_root", "r": if rng.chance(1, 5) { json!([]) } else { json!([cps(rng.pick(&roots[..]).as_str())]) }}),
            10 => json!({"op": "set_file", "f": if rng.chance(1, 4) { json!([]) } else { json!([*rng.pick(NAMES)]) }}),
            _ => json!({"op": "set_debug_id", "d": if rng.chance(1, 3) { json!([]) } else { json!([*rng.pick(crate::c02::UUIDS)]) }}),
        });
    }
    calls.push(json!({"op": "into_sourcemap"}));
    let nsrc = distinct.len() as u64;
    for _ in 0..rng.below((size * 4) as u64 + 1) {
        calls.push(match rng.below(6) {
            0 | 1 => json!({"op": "m_set_source_root", "r": if rng.chance(1, 5) { json!([]) } else { json!([cps(rng.pick(&roots[..]).as_str())]) }}),
            2 if nsrc > 0 => json!({"op": "m_set_source", "id": rng.below(nsrc), "s": cps(rng.pick(&srcs[..]).as_str())}),
            3 if nsrc > 0 => json!({"op": "m_set_source_contents", "id": rng.below(nsrc), "c": if rng.chance(1, 4) { json!([]) } else { json!([*rng.pick(NAMES)]) }}),
            _ => json!({"op": "m_saveload"}),
        });
    }
    json!({"op": "history", "calls": calls})
}
