//! Extension E02: split_ram_bundle (RAM bundle + index map with x_facebook_offsets)
use crate::doc::*;
use crate::maps::own_mappings;
use crate::*;
use serde_json::{json, Value};
use sourcemap::ram_bundle::{split_ram_bundle, RamBundle};
use sourcemap::{DecodedMap, SourceMapIndex};

fn le(n: u32) -> [u8; 4] { n.to_le_bytes() }

/// case: {"mods": [{"text": cps, "toks": [[rel line, col, sl, sc] ...]} | null ...]}
pub fn run(case: &Value, em: &mut Emitter) {
    let mods = case["mods"].as_array().unwrap();
    // bundle bytes
    let texts: Vec<Option<String>> = mods.iter().map(|m| if m.is_null() { None } else { Some(cps_to_string(&m["text"])) }).collect();
    let startup = b"startup();".to_vec();
    let n = texts.len();
    let mut data = startup.clone();
    let mut entries = vec![];
    for t in &texts {
        match t { None => entries.push((0u32, 0u32)), Some(s) => { entries.push((data.len() as u32, s.len() as u32 + 1)); data.extend(s.as_bytes()); data.push(0); } }
    }
    let mut bytes = vec![];
    bytes.extend(le(0xFB0B_D1E5)); bytes.extend(le(n as u32)); bytes.extend(le(startup.len() as u32));
    for (o, l) in &entries { bytes.extend(le(*o)); bytes.extend(le(*l)); }
    bytes.extend(&data);
    // index map: one section per present module at its starting line; x_facebook_offsets = starting lines
    let mut line = 1u64; // line 0 belongs to the startup code
    let mut secs = vec![];
    let mut offs = vec![];
    let mut starts = vec![];
    for (i, m) in mods.iter().enumerate() {
        if m.is_null() { offs.push(json!([])); starts.push(json!(null)); continue; }
        let nlines = texts[i].as_ref().unwrap().split('\n').count() as u64;
        let toks: Vec<Value> = m["toks"].as_array().unwrap().iter().map(|t| json!([t[0], t[1], 0, t[2], t[3], -1, 0])).collect();
        secs.push(json!({"off": [line, 0], "map": [{"version": [3], "sources": [[[cps(&format!("m{}.js", i))]]], "names": [[]], "mappings": [own_mappings(&toks)]}]}));
        offs.push(json!([line]));
        starts.push(json!(line));
        line += nlines + case.get("gap").and_then(|g| g.as_u64()).unwrap_or(0);
    }
    let doc = normalise_doc(&json!({"version": [3], "sections": [secs], "xfo": [offs], "xmp": [(0..n).map(|i| format!("m{}.js", i)).collect::<Vec<_>>()]}));
    let smi: SourceMapIndex = match sourcemap::decode_slice(&write_doc(&doc)) { Ok(DecodedMap::Index(i)) => i, _ => return };
    let flat = match smi.flatten() { Ok(f) => f, Err(_) => return };
    let flat_toks: Vec<Value> = flat.tokens().map(|t| tok_json(&t)).collect();
    let out = guard(|| {
        let rb = match RamBundle::parse_indexed_from_slice(&bytes) { Ok(r) => r, Err(_) => return json!({"k": "noparse"}) };
        let it = match split_ram_bundle(&rb, &smi) { Ok(i) => i, Err(_) => return json!({"k": "nosplit"}) };
        let res: Vec<Value> = it.map(|r| match r {
            Ok((name, _sv, sm)) => json!({"k": "ok", "name": name, "toks": sm.tokens().map(|t| tok_json(&t)).collect::<Vec<_>>()}),
            Err(_) => json!({"k": "err", "toks": []}),
        }).collect();
        json!({"k": "ok", "mods": res})
    });
    // the modules the iterator visits: present modules whose offset is not null, in id order
    let visited: Vec<Value> = mods.iter().enumerate().filter(|(_, m)| !m.is_null())
        .map(|(i, m)| json!({"id": i, "start": starts[i], "text": m["text"]})).collect();
    em.emit("split", json!({"flat": flat_toks, "mods": visited}), out);
}

pub fn gen(rng: &mut Rng, size: usize) -> Value {
    let n = 1 + rng.below(size as u64 + 2);
    let mods: Vec<Value> = (0..n).map(|_| {
        if rng.chance(1, 6) { return Value::Null; }
        let nlines = 1 + rng.below(3);
        let mut text = String::new();
        let mut toks = vec![];
        for l in 0..nlines {
            let len = rng.below(30);
            let line: String = (0..len).map(|_| *rng.pick(&['a', 'b', ';', ' ', '(', 'é', '😍'])).collect();
            let mut c = if rng.chance(1, 2) { 0 } else { rng.range(1, 4) };
            for _ in 0..rng.below(4) {
                toks.push(json!([l, c, rng.range(0, 9), rng.range(0, 9)]));
                c += rng.range(1, 12);
            }
            text.push_str(&line);
            if l + 1 < nlines { text.push('\n'); }
        }
        json!({"text": cps(&text), "toks": toks})
    }).collect();
    json!({"op": "split", "mods": mods, "gap": rng.below(2)})
}
