//! Extension E03: rewrite with the "~" (common prefix of absolute sources) option
use crate::doc::*;
use crate::maps::*;
use crate::*;
use serde_json::{json, Value};
use sourcemap::{DecodedMap, RewriteOptions};

pub fn run(case: &Value, em: &mut Emitter) {
    let sources = case["sources"].as_array().unwrap();
    let n = sources.len() as i64;
    // every source referenced once, in order, plus a repeat of the first
    let mut toks: Vec<Value> = (0..n).map(|i| json!([0, 3 * i, i, i, 1, -1, 0])).collect();
    toks.push(json!([1, 0, 0, 9, 9, -1, 0]));
    let root = case.get("root").cloned().unwrap_or(json!([]));
    let m = json!({"toks": toks, "sources": sources, "names": [], "contents": [], "root": root, "file": [], "debug_id": [], "ignore": []});
    let sm = match build(&m, "new") { Some(s) => s, None => return };
    let p1 = proj_map(&DecodedMap::Regular(sm.clone()));
    let extra: Vec<String> = case.get("prefixes").and_then(|p| p.as_array()).map(|a| a.iter().map(cps_to_string).collect()).unwrap_or_default();
    let mut prefs: Vec<&str> = extra.iter().map(|s| s.as_str()).collect();
    prefs.push("~");
    let ro = RewriteOptions { strip_prefixes: &prefs, ..Default::default() };
    let out = guard(|| match sm.rewrite(&ro) {
        Ok(r) => json!({"k": "ok", "p2": proj_map(&DecodedMap::Regular(r))}),
        Err(e) => json!({"k": "err", "e": format!("{:?}", e)}),
    });
    let opts = json!({"names": true, "contents": true, "prefixes": case.get("prefixes").cloned().unwrap_or(json!([]))});
    em.emit("tilde", json!({"p1": p1, "raw": sources, "opts": opts}), out);
}

pub fn gen(rng: &mut Rng, _size: usize) -> Value {
    let pool = ["/a/b/c.js", "/a/b/d.js", "/a/x.js", "/a", "rel/y.js", "C:/a/b.js", "C:\\a\\c.js", "/", "/a/b", "/ab/c.js", "/a/b/", "//a/b/e.js", "/ü/b/f.js", "/ü/b/g.js", "http://h/a.js", "d:/x/y.js"];
    let n = 1 + rng.below(5);
    let sources: Vec<Value> = (0..n).map(|_| cps(*rng.pick(&pool))).collect();
    let mut c = json!({"op": "tilde", "sources": sources});
    if rng.chance(1, 3) { c["root"] = json!([cps(*rng.pick(&["r", "/root/", ""]))]); }
    if rng.chance(1, 3) { c["prefixes"] = json!([cps(*rng.pick(&["/a", "rel", "/a/b/"]))]); }
    c
}
