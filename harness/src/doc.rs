//! Abstract documents and map projections shared by several properties.
//!
//! * `write_doc` — the harness's OWN envelope writer: turns an abstract document (JSON value,
//!   optional values as []/[v], texts as symbol arrays) into bytes, keys in the requested order.
//! * `proj_map` — the full observable projection of a decoded map, in the spec's encodings.
use crate::*;
use serde_json::{json, Map, Value};
use sourcemap::{DecodedMap, SourceMap, SourceMapHermes, SourceMapIndex};

pub const BIG: i64 = 1 << 30; // numbers >= 2^30 are clamped to this sentinel (TLC integers are 32 bit)
pub fn num(n: u32) -> i64 {
    // The judge holds numbers below 2^31.  Numbers >= 2^30 are logged through a MONOTONE map onto a few classes, so
    // that order is preserved (not distances): [2^30, 2^31-1) -> BIG, 2^31-1 -> BIG+1, [2^31, 2^31+5) -> BIG+2,
    // [2^31+5, u32::MAX) -> BIG+3, u32::MAX -> 2^31-1 (MAXU).  Inputs use the same stand-ins (maps::u).
    let v = n as i64;
    if n == u32::MAX { 2147483647 } else if v >= (1 << 31) + 5 { BIG + 3 } else if v >= 1 << 31 { BIG + 2 } else if v == (1 << 31) - 1 { BIG + 1 } else if v >= BIG { BIG } else { v }
}
pub fn idx(n: u32) -> i64 {
    if n == !0 { -1 } else { num(n) }
}
pub fn cps(s: &str) -> Value {
    Value::Array(s.chars().map(|c| json!(c as u32)).collect())
}
pub fn cps_to_string(v: &Value) -> String {
    v.as_array().unwrap().iter().map(|c| char::from_u32(c.as_u64().unwrap() as u32).unwrap()).collect()
}
fn opt<'a>(v: &'a Value, key: &str) -> Option<&'a Value> {
    match v.get(key) {
        Some(Value::Array(a)) if a.len() == 1 => Some(&a[0]),
        _ => None,
    }
}
fn jstr(s: &str) -> String {
    serde_json::to_string(s).unwrap()
}
fn name_json(n: &Value) -> String {
    if let Some(s) = n.get("s") {
        jstr(s.as_str().unwrap())
    } else if let Some(x) = n.get("n") {
        x.to_string()
    } else if let Some(x) = n.get("lit") {
        // a JSON number given as its literal text (beyond 53 bits, fractions): written verbatim
        x.as_str().unwrap().to_string()
    } else if let Some(x) = n.get("raw") {
        x.as_str().unwrap().to_string()
    } else {
        "null".into()
    }
}

pub const DEFAULT_ORDER: &[&str] = &[
    "version", "file", "sourceRoot", "sources", "sourcesContent", "names", "mappings", "rangeMappings",
    "ignoreList", "debug_id", "debugId", "x_facebook_sources", "sections", "x_facebook_offsets", "x_metro_module_paths",
];

/// serialise an abstract document
pub fn write_doc(doc: &Value) -> Vec<u8> {
    let mut out = Vec::new();
    if let Some(j) = opt(doc, "junk") {
        out.extend(j.as_array().unwrap().iter().map(|b| b.as_u64().unwrap() as u8));
    }
    out.extend(write_obj(doc).into_bytes());
    out
}

fn write_obj(doc: &Value) -> String {
    let order: Vec<String> = match doc.get("order") {
        Some(Value::Array(a)) if !a.is_empty() => a.iter().map(|x| x.as_str().unwrap().to_string()).collect(),
        _ => DEFAULT_ORDER.iter().map(|s| s.to_string()).collect(),
    };
    let mut parts: Vec<String> = vec![];
    for key in order {
        let val: Option<String> = match key.as_str() {
            "version" => opt(doc, "version").map(|v| v.to_string()),
            "file" => opt(doc, "file").map(name_json),
            "sourceRoot" => opt(doc, "root").map(|r| jstr(&cps_to_string(r))),
            "sources" => opt(doc, "sources").map(|l| {
                let xs: Vec<String> = l.as_array().unwrap().iter()
                    .map(|e| match e.as_array().unwrap().first() { Some(c) => jstr(&cps_to_string(c)), None => "null".into() })
                    .collect();
                format!("[{}]", xs.join(","))
            }),
            "sourcesContent" => opt(doc, "contents").map(|l| {
                let xs: Vec<String> = l.as_array().unwrap().iter()
                    .map(|e| match e.as_array().unwrap().first() { Some(c) => jstr(c.as_str().unwrap()), None => "null".into() })
                    .collect();
                format!("[{}]", xs.join(","))
            }),
            "names" => opt(doc, "names").map(|l| {
                let xs: Vec<String> = l.as_array().unwrap().iter().map(name_json).collect();
                format!("[{}]", xs.join(","))
            }),
            "mappings" => opt(doc, "mappings").map(|t| jstr(&String::from_utf8_lossy(&syms_to_bytes(t)))),
            "rangeMappings" => opt(doc, "range").map(|t| jstr(&String::from_utf8_lossy(&syms_to_bytes(t)))),
            "ignoreList" => opt(doc, "ignore").map(|l| l.to_string()),
            "debug_id" => opt(doc, "debug_id").map(|s| jstr(s.as_str().unwrap())),
            "debugId" => opt(doc, "debugId").map(|s| jstr(s.as_str().unwrap())),
            "x_facebook_sources" => opt(doc, "xfs").map(|l| {
                let xs: Vec<String> = l.as_array().unwrap().iter().map(|e| match e.as_array().unwrap().first() {
                    None => "null".to_string(),
                    Some(metas) => {
                        let ms: Vec<String> = metas.as_array().unwrap().iter().map(|m| {
                            let names: Vec<String> = m["names"].as_array().unwrap().iter().map(|n| jstr(n.as_str().unwrap())).collect();
                            format!("{{\"names\":[{}],\"mappings\":{}}}", names.join(","),
                                    jstr(&String::from_utf8_lossy(&syms_to_bytes(&m["mappings"]))))
                        }).collect();
                        format!("[{}]", ms.join(","))
                    }
                }).collect();
                format!("[{}]", xs.join(","))
            }),
            "sections" => opt(doc, "sections").map(|l| {
                let xs: Vec<String> = l.as_array().unwrap().iter().map(|s| {
                    let mut p = vec![format!("\"offset\":{{\"line\":{},\"column\":{}}}", s["off"][0], s["off"][1])];
                    if let Some(u) = opt(s, "url") { p.push(format!("\"url\":{}", jstr(u.as_str().unwrap()))); }
                    if let Some(m) = opt(s, "map") { p.push(format!("\"map\":{}", write_obj(m))); }
                    format!("{{{}}}", p.join(","))
                }).collect();
                format!("[{}]", xs.join(","))
            }),
            "x_facebook_offsets" => opt(doc, "xfo").map(|l| {
                let xs: Vec<String> = l.as_array().unwrap().iter()
                    .map(|e| match e.as_array().unwrap().first() { Some(c) => c.to_string(), None => "null".into() }).collect();
                format!("[{}]", xs.join(","))
            }),
            "x_metro_module_paths" => opt(doc, "xmp").map(|l| l.to_string()),
            other => doc.get("extra").and_then(|e| e.get(other)).map(|v| v.as_str().unwrap().to_string()),
        };
        if let Some(v) = val {
            parts.push(format!("{}:{}", jstr(&key), v));
        }
    }
    format!("{{{}}}", parts.join(","))
}

pub fn tok_json(t: &sourcemap::Token<'_>) -> Value {
    let r = t.get_raw_token();
    // (a name id that resolves to nothing -- the state remove_names() leaves behind -- reads as "no name" through every
    // accessor but get_name_id(): the projection is what has_name() / get_name() report)
    let name_id = if t.get_name().is_some() { r.name_id } else { !0 };
    json!([num(r.dst_line), num(r.dst_col), idx(r.src_id), num(r.src_line), num(r.src_col), idx(name_id), r.is_range as u8])
}

pub fn proj_sm(sm: &SourceMap) -> Map<String, Value> {
    let mut m = Map::new();
    m.insert("toks".into(), Value::Array(sm.tokens().map(|t| tok_json(&t)).collect()));
    m.insert("ntok".into(), json!(sm.get_token_count()));
    m.insert("sources".into(), Value::Array(sm.sources().map(cps).collect()));
    m.insert("nsrc".into(), json!(sm.get_source_count()));
    m.insert("names".into(), Value::Array(sm.names().map(|n| json!(n)).collect()));
    m.insert("contents".into(), Value::Array(sm.source_contents().map(opt_str).collect()));
    m.insert("file".into(), opt_str(sm.get_file()));
    m.insert("root".into(), match sm.get_source_root() { Some(r) => json!([cps(r)]), None => json!([]) });
    m.insert("debug_id".into(), match sm.get_debug_id() { Some(d) => json!([d.to_string()]), None => json!([]) });
    m.insert("ignore".into(), Value::Array(sm.ignore_list().map(|i| json!(num(*i))).collect()));
    m
}

pub fn proj_hermes(h: &SourceMapHermes) -> Map<String, Value> {
    let mut m = proj_sm(h);
    m.insert("scopes".into(), Value::Array(h.tokens().map(|t| opt_str(h.get_scope_for_token(t))).collect()));
    m
}

pub fn proj_index(smi: &SourceMapIndex) -> Map<String, Value> {
    let mut m = Map::new();
    m.insert("file".into(), opt_str(smi.get_file()));
    m.insert("sections".into(), Value::Array(smi.sections().map(|s| {
        json!({"off": [num(s.get_offset_line()), num(s.get_offset_col())],
               "url": opt_str(s.get_url()),
               "map": match s.get_sourcemap() { Some(d) => json!([proj_map(d)]), None => json!([]) }})
    }).collect()));
    m
}

pub fn proj_map(d: &DecodedMap) -> Value {
    let (kind, mut m) = match d {
        DecodedMap::Regular(sm) => ("regular", proj_sm(sm)),
        DecodedMap::Hermes(h) => ("hermes", proj_hermes(h)),
        DecodedMap::Index(i) => ("index", proj_index(i)),
    };
    m.insert("kind".into(), json!(kind));
    Value::Object(m)
}

/// decode outcome as an event `out`
pub fn decode_out(bytes: &[u8]) -> Value {
    guard(|| match sourcemap::decode_slice(bytes) {
        Ok(d) => {
            let mut p = proj_map(&d);
            p["k"] = json!("ok");
            p
        }
        Err(e) => json!({"k": "err", "e": format!("{:?}", e).chars().take(80).collect::<String>()}),
    })
}

/// default envelope around a mappings text (TLC-generated decoder cases)
pub fn default_doc(text: &Value, nsrc: u64, nnm: u64) -> Value {
    json!({
        "version": [3],
        "sources": [(0..nsrc).map(|i| json!([cps(&format!("s{}", i))])).collect::<Vec<_>>()],
        "names": [(0..nnm).map(|i| json!({"s": format!("n{}", i)})).collect::<Vec<_>>()],
        "mappings": [text],
    })
}

/// fill in absent keys with [] so that the spec can test every field
pub fn normalise_doc(doc: &Value) -> Value {
    let mut d = doc.clone();
    let o = d.as_object_mut().unwrap();
    for k in ["order", "junk", "version", "file", "root", "sources", "contents", "names", "mappings", "range",
              "ignore", "debug_id", "debugId", "xfs", "sections", "xfo", "xmp"] {
        if !o.contains_key(k) {
            o.insert(k.into(), json!([]));
        }
    }
    if let Some(Value::Array(a)) = o.get_mut("sections") {
        if a.len() == 1 {
            if let Value::Array(secs) = &mut a[0] {
                for s in secs.iter_mut() {
                    let so = s.as_object_mut().unwrap();
                    if !so.contains_key("url") { so.insert("url".into(), json!([])); }
                    let m = match so.get("map") { Some(Value::Array(m)) if m.len() == 1 => Some(normalise_doc(&m[0])), _ => None };
                    so.insert("map".into(), match m { Some(x) => json!([x]), None => json!([]) });
                }
            }
        }
    }
    d
}
