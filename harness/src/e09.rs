//! Extension E09: SourceMapRef::resolve / resolve_path / get_url over a closed URL alphabet
use crate::doc::*;
use crate::*;
use serde_json::{json, Value};
use sourcemap::SourceMapRef;

fn opt_cps(o: Option<String>) -> Value {
    match o { Some(s) => json!([cps(&s)]), None => json!([]) }
}

pub fn run(case: &Value, em: &mut Emitter) {
    let r = cps_to_string(&case["ref"]);
    let base = cps_to_string(&case["base"]);
    let path = cps_to_string(&case["path"]);
    let out = guard(|| {
        let a = SourceMapRef::Ref(r.clone());
        let b = SourceMapRef::LegacyRef(r.clone());
        json!({"k": "ok",
               "get_url": cps(a.get_url()), "get_url_legacy": cps(b.get_url()),
               "url": opt_cps(a.resolve(&base)), "url_legacy": opt_cps(b.resolve(&base)),
               "path": opt_cps(a.resolve_path(std::path::Path::new(&path)).map(|p| p.to_string_lossy().into_owned())),
               "path_legacy": opt_cps(b.resolve_path(std::path::Path::new(&path)).map(|p| p.to_string_lossy().into_owned()))})
    });
    em.emit("resolve", json!({"ref": case["ref"], "base": case["base"], "path": case["path"]}), out);
}

const COMPS: &[&str] = &["a", "b", "dist", "min.js", "app.min.js.map", ".", "..", "x-1.y_2", "maps", "static", "v2", "..."];
const HOSTS: &[&str] = &["h", "example.com", "cdn.example.com:8080", "localhost:3000", "10.0.0.1"];
fn gen_path(rng: &mut Rng, lo: u64, hi: u64) -> String {
    let n = lo + rng.below(hi - lo + 1);
    let mut v: Vec<&str> = (0..n).map(|_| *rng.pick(COMPS)).collect();
    if rng.chance(1, 8) { v.push(""); }            // trailing slash
    v.join("/")
}
fn gen_tail(rng: &mut Rng) -> String {
    let mut s = String::new();
    if rng.chance(1, 4) { s.push_str(*rng.pick(&["?v=3", "?", "?a=1&b=2"])); }
    if rng.chance(1, 5) { s.push_str(*rng.pick(&["#f", "#", "#sec-2"])); }
    s
}
pub fn gen(rng: &mut Rng, size: usize) -> Value {
    let hi = 2 + size as u64;
    let bpath = gen_path(rng, 0, hi);
    let base = match rng.below(8) {
        0 => format!("file:///{}", bpath),
        1 => bpath.clone(),                                                   // not a URL
        2 => format!("https://{}", rng.pick(HOSTS)),                          // no path at all
        n => format!("{}://{}/{}{}", if n % 2 == 0 { "http" } else { "https" }, rng.pick(HOSTS), bpath, gen_tail(rng)),
    };
    let rpath = gen_path(rng, 0, hi);
    let r = match rng.below(10) {
        0 => format!("data:application/json;base64,{}", rpath),
        1 => format!("https://{}/{}{}", rng.pick(HOSTS), rpath, gen_tail(rng)),
        2 => format!("//{}/{}{}", rng.pick(HOSTS), rpath, gen_tail(rng)),
        3 | 4 => format!("/{}{}", rpath, gen_tail(rng)),
        5 => gen_tail(rng),                                                   // empty path
        _ => format!("{}{}", rpath, gen_tail(rng)),
    };
    let path = if rng.chance(1, 6) { gen_path(rng, 1, hi) } else { format!("/{}", gen_path(rng, 0, hi)) };
    json!({"op": "resolve", "ref": cps(&r), "base": cps(&base), "path": cps(&path)})
}
