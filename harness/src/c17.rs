//! C17 — function-name resolution
use crate::doc::*;
use crate::maps::raw_tokens;
use crate::*;
use serde_json::{json, Value};
use sourcemap::{DecodedMap, SourceMap, SourceMapIndex, SourceMapSection, SourceView};
use std::sync::Arc;

fn line_str(v: &Value) -> String { cps_to_string(v) }

fn one(sm: &SourceMap, sv: &SourceView, lines: &Value, toks: &Value, names: &Value, q: (u32, u32), name: &str, via: &str, em: &mut Emitter) {
    let out = guard(|| {
        let r = match via {
            "map" => sm.get_original_function_name(q.0, q.1, name, sv).map(|s| s.to_string()),
            "index" => {
                let smi = SourceMapIndex::new(None, vec![SourceMapSection::new((0, 0), None, Some(DecodedMap::Regular(sm.clone())))]);
                smi.get_original_function_name(q.0, q.1, name, sv).map(|s| s.to_string())
            }
            _ => {
                let d = DecodedMap::Regular(sm.clone());
                d.get_original_function_name(q.0, q.1, Some(name), Some(sv)).map(|s| s.to_string())
            }
        };
        json!({"k": "ok", "ret": opt_str(r.as_deref())})
    });
    em.emit("resolve", json!({"lines": lines, "toks": toks, "names": names, "q": [q.0, q.1], "name": cps(name), "via": via}), out);
}

pub fn run(case: &Value, em: &mut Emitter) {
    let lines = &case["lines"];
    let text: Vec<String> = lines.as_array().unwrap().iter().map(line_str).collect();
    let sv = SourceView::new(text.join("\n").into());
    // tokens: explicit, or one per fragment start on line 0 (TLC cases)
    let toks: Value = match case.get("toks") {
        Some(t) => t.clone(),
        None => Value::Array(case["starts"].as_array().unwrap().iter().enumerate().map(|(i, c)| json!([0, c, 0, i + 1, 0, i, 0])).collect()),
    };
    let ntok = toks.as_array().unwrap().len();
    let names: Value = match case.get("names") { Some(n) => n.clone(), None => Value::Array((1..=ntok).map(|i| json!(format!("orig{}", i))).collect()) };
    let sm = SourceMap::new(None, raw_tokens(&json!({"toks": toks})),
                            names.as_array().unwrap().iter().map(|n| Arc::from(n.as_str().unwrap())).collect(),
                            vec![Arc::from("src.js")], None);
    let observed = Value::Array(sm.tokens().map(|t| tok_json(&t)).collect());
    let name = line_str(&case["name"]);
    let qs: Vec<(u32, u32)> = match case.get("qs") {
        Some(q) => q.as_array().unwrap().iter().map(|p| (p[0].as_u64().unwrap() as u32, p[1].as_u64().unwrap() as u32)).collect(),
        None => {
            let mut v: Vec<(u32, u32)> = toks.as_array().unwrap().iter().map(|t| (t[0].as_u64().unwrap() as u32, t[1].as_u64().unwrap() as u32)).collect();
            if let Some(&(l, c)) = v.last() { v.push((l, c + 1)); v.push((l + 1, 0)); }
            v
        }
    };
    for (n, q) in qs.iter().enumerate() {
        let via = match case.get("via") { Some(v) => v.as_str().unwrap().to_string(), None => ["map", "index", "decoded"][n % 3].to_string() };
        // every third resolution goes through a clone of the view taken at that moment (after earlier resolutions)
        if n % 3 == 2 { let c = sv.clone(); one(&sm, &c, lines, &observed, &names, *q, &name, &via, em); }
        else { one(&sm, &sv, lines, &observed, &names, *q, &name, &via, em); }
    }
}

const IDS: &[&str] = &["a", "b", "ab", "abc", "$", "_x", "é", "aé", "𝒳", "𝒳a", "㮏", "x㮏", "a\u{200d}b", "fn", "function2", "n1",
                       "\u{2118}", "\u{212e}x", "\u{2160}", "\u{1885}1", "a\u{301}", "a\u{345}", "a\u{93e}b", "a\u{b7}", "a\u{387}", "a\u{203f}b", "A", "aB"];
const NOT_IDS: &[&str] = &["1a", "a.b", "a b", "", "(", "a-b", "\u{200d}a", "\u{301}a", "\u{93e}a", "\u{345}", "\u{b7}a", "\u{203f}", "\u{b2}", "a\u{b2}"];

pub fn gen(rng: &mut Rng, size: usize) -> Value {
    // a minified program: several functions per line, several lines; tokens on keywords, names and bodies
    let nlines = 1 + rng.below(3) as usize;
    let mut lines: Vec<String> = vec![];
    let mut toks: Vec<Value> = vec![];
    let mut names: Vec<Value> = vec![];
    let budget_family = rng.chance(1, 12);
    let mut used: Vec<&str> = vec![];
    for l in 0..nlines {
        let mut s = String::new();
        let u16len = |s: &str| s.encode_utf16().count();
        let nfun = if budget_family { 1 } else { 1 + rng.below(size as u64 + 1) };
        for _ in 0..nfun {
            if rng.chance(1, 3) { s.push_str(*rng.pick(&["/*😍*/", "var é=1;", "}", " ", "x=\"㮏\";"])); }
            let sep = *rng.pick(&[" ", "  ", "\t", "\u{a0}", "\u{2028}", "\u{3000}", "\u{b}", " \u{2003}"]);
            let id = *rng.pick(IDS);
            used.push(id);
            // keyword token
            if rng.chance(9, 10) { toks.push(json!([l, u16len(&s), 0, toks.len(), 0, -1, 0])); }
            s.push_str("function");
            s.push_str(sep);
            // name token (sometimes pointing at the blank before the name)
            let col = if rng.chance(1, 5) { u16len(&s) - 1 } else { u16len(&s) };
            // sometimes an extra token at an arbitrary column of the text so far (possibly inside a surrogate pair)
            if rng.chance(1, 4) && u16len(&s) > 2 { let c = rng.below(u16len(&s) as u64 - 1); toks.push(json!([l, c, 0, toks.len(), 0, -1, 0])); }
            if rng.chance(1, 6) {
                // a declaration whose token carries NO name (the same minified identifier may be declared again elsewhere)
                toks.push(json!([l, col, 0, toks.len(), 0, -1, 0]));
            } else {
                names.push(if rng.chance(1, 8) { json!("") } else { json!(format!("orig_{}_{}", id, toks.len())) });   // sometimes the EMPTY name (present, not missing)
                toks.push(json!([l, col, 0, toks.len(), 0, names.len() - 1, 0]));
            }
            s.push_str(id);
            s.push_str("(){");
            // body tokens
            let nbody = if budget_family { 118 + rng.below(14) } else { rng.below(6) };
            for _ in 0..nbody {
                toks.push(json!([l, u16len(&s), 0, toks.len(), 0, -1, 0]));
                s.push_str(*rng.pick(&["a;", "b();", "é=2;", "r(𝒳);", "q ", "f(function(){})", "n1."]));
            }
            s.push('}');
        }
        if rng.chance(1, 8) { toks.push(json!([l, u16len(&s) + 3, 0, toks.len(), 0, -1, 0])); } // token past the end of the line
        lines.push(s);
    }
    if rng.chance(1, 10) { toks.push(json!([nlines + 1, 0, 0, toks.len(), 0, -1, 0])); }       // token on a missing line
    // the minified name asked for: mostly one that is declared in the text
    let name = if rng.chance(1, 6) { *rng.pick(NOT_IDS) } else if rng.chance(3, 4) { *rng.pick(&used) } else { *rng.pick(IDS) };
    let qs: Vec<Value> = (0..6).map(|_| { let t = rng.pick(&toks); json!([t[0], t[1].as_u64().unwrap() + rng.below(2)]) }).collect();
    json!({"op": "resolve", "lines": lines.iter().map(|s| cps(s)).collect::<Vec<_>>(), "toks": toks, "names": names, "name": cps(name), "qs": qs})
}
