//! C16 — a SourceView shared between threads.
//! Schedule replay: real threads on one shared view; hook H1's yield points park each thread until
//! the scheduler hands it the turn.  A schedule is a sequence of thread ids: "let thread t run to
//! its next yield point or to the end of its call".  Only results, panics and deadlock are logged
//! and judged; the yield sequence is recorded for diagnosis, never compared.
use crate::c15::{call_view, text_of};
use crate::*;
use serde_json::{json, Value};
use sourcemap::SourceView;
use std::sync::{Arc, Condvar, Mutex};
use std::time::{Duration, Instant};

/// a thread's handle on the view: the shared one until the thread takes a clone ("clone" call), then its own
struct Handle { shared: Arc<SourceView>, own: Option<SourceView> }
impl Handle {
    fn call(&mut self, c: &Value) -> Value {
        if c["op"] == "clone" {
            let cur: &SourceView = self.own.as_ref().unwrap_or(&self.shared);
            let fresh = guard(|| { let _ = cur; json!({"k": "ok", "ret": 0}) });
            let nv = std::panic::catch_unwind(std::panic::AssertUnwindSafe(|| cur.clone()));
            match nv { Ok(v) => { self.own = Some(v); fresh } Err(_) => json!({"k": "panic", "msg": "clone"}) }
        } else {
            call_view(self.own.as_ref().unwrap_or(&self.shared), c)
        }
    }
}

#[derive(Clone, Copy, PartialEq, Debug)]
enum St { Parked, Running, Done }

struct Sched {
    st: Vec<St>,
    turn: Option<usize>,
    yields: Vec<(usize, u8)>,
    results: Vec<(usize, usize, Value)>, // (thread, call index, out) in completion order
}
type Shared = Arc<(Mutex<Sched>, Condvar)>;

fn park(sh: &Shared, t: usize, point: u8) {
    let (m, cv) = &**sh;
    let mut g = m.lock().unwrap();
    g.st[t] = St::Parked;
    g.yields.push((t, point));
    cv.notify_all();
    while g.turn != Some(t) {
        g = cv.wait(g).unwrap();
    }
    g.turn = None;
    g.st[t] = St::Running;
}

pub fn run_schedule(text: &str, calls: &[Vec<Value>], sched: &[usize], step_timeout: Duration) -> (Vec<(usize, usize, Value)>, bool, Vec<(usize, u8)>) {
    let n = calls.len();
    let view = Arc::new(SourceView::new(text.into()));
    let sh: Shared = Arc::new((Mutex::new(Sched { st: vec![St::Running; n], turn: None, yields: vec![], results: vec![] }), Condvar::new()));
    let mut handles = vec![];
    for t in 0..n {
        let view = view.clone();
        let sh2 = sh.clone();
        let my_calls = calls[t].clone();
        handles.push(std::thread::spawn(move || {
            let hook_sh = sh2.clone();
            sourcemap::verif::set_yield_hook(Some(Box::new(move |p| park(&hook_sh, t, p))));
            park(&sh2, t, 0); // wait for the first turn
            let keep = view.clone();
            let sref: &SourceView = &keep;
            let mut it = None;          // a line iterator over the SHARED view that stays alive between this thread's calls
            let mut h = Handle { shared: view, own: None };
            for (j, c) in my_calls.iter().enumerate() {
                let out = if c["op"] == "it_next" {
                    let itr = it.get_or_insert_with(|| sref.lines());
                    guard(|| json!({"k": "ok", "ret": match itr.next() { Some(s) => json!([crate::doc::cps(s)]), None => json!([]) }}))
                } else { h.call(c) };
                {
                    let (m, _) = &*sh2;
                    m.lock().unwrap().results.push((t, j, out));
                }
                if j + 1 < my_calls.len() { park(&sh2, t, 9); } // call boundary
            }
            sourcemap::verif::set_yield_hook(None);
            let (m, cv) = &*sh2;
            let mut g = m.lock().unwrap();
            g.st[t] = St::Done;
            cv.notify_all();
        }));
    }
    let (m, cv) = &*sh;
    // wait until every thread is parked at its start
    {
        let mut g = m.lock().unwrap();
        while g.st.iter().any(|s| *s == St::Running) { g = cv.wait(g).unwrap(); }
    }
    let mut order: Vec<usize> = sched.to_vec();
    let mut deadlock = false;
    let mut rr = 0usize;
    let mut idle_rounds = 0;
    let mut pos = 0;
    loop {
        let mut g = m.lock().unwrap();
        if g.st.iter().all(|s| *s == St::Done) { break; }
        // next thread to move: from the schedule, then round robin
        let t = if pos < order.len() { let t = order[pos]; pos += 1; t } else { rr += 1; rr % n };
        if t >= n || g.st[t] != St::Parked {
            // finished, or blocked on the view's mutex: nothing to hand over
            let parked_any = g.st.iter().any(|s| *s == St::Parked);
            if !parked_any {
                // nobody can be handed the turn: wait for a blocked thread to come back
                let deadline = Instant::now() + Duration::from_secs(8);   // generous: only a real deadlock waits this long
                loop {
                    let (g2, to) = cv.wait_timeout(g, step_timeout).unwrap();
                    g = g2;
                    if g.st.iter().all(|s| *s == St::Done) || g.st.iter().any(|s| *s == St::Parked) { break; }
                    if to.timed_out() && Instant::now() > deadline { deadlock = true; break; }
                }
                if deadlock { break; }
            }
            idle_rounds += 1;
            if idle_rounds > 100000 { deadlock = true; break; }
            continue;
        }
        idle_rounds = 0;
        g.turn = Some(t);
        cv.notify_all();
        // let it run to its next yield / the end of its program; if it does not come back in time
        // it is blocked on the mutex (held by a parked thread): move on
        let deadline = Instant::now() + step_timeout;
        loop {
            if g.turn.is_none() && g.st[t] != St::Running { break; }
            let now = Instant::now();
            if now >= deadline { break; }
            let (g2, _) = cv.wait_timeout(g, deadline - now).unwrap();
            g = g2;
        }
        drop(g);
        let _ = &mut order;
    }
    let (results, yields) = {
        let g = m.lock().unwrap();
        (g.results.clone(), g.yields.clone())
    };
    if !deadlock {
        for h in handles { let _ = h.join(); }
    } // on deadlock the threads are abandoned
    (results, deadlock, yields)
}

fn emit_results(case: &Value, calls: &[Vec<Value>], results: Vec<(usize, usize, Value)>, deadlock: bool, mode: &str, nyield: usize, em: &mut Emitter) {
    let empty = json!([]);
    let text_v = case.get("text").unwrap_or(&empty);
    let rep = crate::c15::rep_arg(case);
    let total: usize = calls.iter().map(|c| c.len()).sum();
    let g = |c: &Value, k: &str| c.get(k).cloned().unwrap_or(json!(0));
    for (t, j, out) in &results {
        let c = &calls[*t][*j];
        if c["op"] == "it_next" {
            // the k-th next() of a thread's line iterator is get_line(k) on the shared view
            let k = calls[*t][..*j].iter().filter(|x| x["op"] == "it_next").count();
            em.emit("get_line", json!({"text": text_v, "rep": rep, "thr": t, "mode": mode, "i": k, "line": 0, "c": 0, "n": 0, "via": "lines().next()"}), out.clone());
            continue;
        }
        em.emit(c["op"].as_str().unwrap(),
                json!({"text": text_v, "rep": rep, "thr": t, "mode": mode, "i": g(c, "i"), "line": g(c, "line"), "c": g(c, "c"), "n": g(c, "n")}), out.clone());
    }
    em.emit("end", json!({"text": text_v, "rep": rep, "mode": mode, "i": 0, "line": 0, "c": 0, "n": 0}),
            json!({"k": if deadlock || results.len() != total { "deadlock" } else { "ok" }, "answered": results.len(), "expected": total, "yields": nyield}));
}

pub fn run(case: &Value, em: &mut Emitter) {
    let text = crate::c15::case_text(case);
    let calls: Vec<Vec<Value>> = case["calls"].as_array().unwrap().iter().map(|c| c.as_array().unwrap().clone()).collect();
    match case["op"].as_str().unwrap() {
        "conc" => {
            // TLC thread ids are 1-based
            let sched: Vec<usize> = case["sched"].as_array().unwrap().iter().map(|t| t.as_u64().unwrap() as usize - 1).collect();
            let (results, deadlock, yields) = run_schedule(&text, &calls, &sched, Duration::from_millis(10));
            emit_results(case, &calls, results, deadlock, "replay", yields.len(), em);
        }
        "stress" => {
            // free-running real threads, no scheduler
            let view = Arc::new(SourceView::new(text.clone().into()));
            let mut hs = vec![];
            for (t, cs) in calls.iter().enumerate() {
                let view = view.clone();
                let cs = cs.clone();
                hs.push(std::thread::spawn(move || {
                    let keep = view.clone();
                    let sref: &SourceView = &keep;
                    let mut it = None;
                    let mut h = Handle { shared: view, own: None };
                    cs.iter().enumerate().map(|(j, c)| (t, j, if c["op"] == "it_next" {
                        let itr = it.get_or_insert_with(|| sref.lines());
                        guard(|| json!({"k": "ok", "ret": match itr.next() { Some(s) => json!([crate::doc::cps(s)]), None => json!([]) }}))
                    } else { h.call(c) })).collect::<Vec<_>>()
                }));
            }
            // a thread that does not come back (blocked for ever on the view's lock) is a deadlock, not a hang of the harness
            let (tx, rx) = std::sync::mpsc::channel();
            let nthreads = hs.len();
            for h in hs { let tx = tx.clone(); std::thread::spawn(move || { let _ = tx.send(h.join().ok()); }); }
            let mut results = vec![];
            let mut back = 0;
            let deadline = Instant::now() + Duration::from_secs(20);
            while back < nthreads {
                let left = deadline.saturating_duration_since(Instant::now());
                match rx.recv_timeout(left) { Ok(r) => { back += 1; if let Some(r) = r { results.extend(r); } } Err(_) => break }
            }
            emit_results(case, &calls, results, back < nthreads, "stress", 0, em);
        }
        _ => panic!("bad C16 case"),
    }
}

pub fn gen(rng: &mut Rng, size: usize) -> Value {
    if rng.chance(1, 12) {
        // free-running threads on a large text: indexing takes long enough for the threads to overlap
        let n = *rng.pick(&[3000i64, 40000, 300001]);
        let nthr = 4 + rng.below(3) as usize;
        let calls: Vec<Vec<Value>> = (0..nthr).map(|t| match t % 4 {
            0 => vec![json!({"op": "line_count"}), json!({"op": "get_line", "i": n})],
            1 => vec![json!({"op": "get_line", "i": n + 5}), json!({"op": "line_count"})],
            2 => vec![json!({"op": "get_line", "i": n - 1}), json!({"op": "get_line", "i": 0})],
            // requests for the FIRST lines made while the other threads are still indexing the whole text
            _ => vec![json!({"op": "get_line", "i": 0}), json!({"op": "get_line", "i": 1}), json!({"op": "get_line", "i": 0}), json!({"op": "get_line", "i": 2})],
        }).collect();
        let sep: Vec<u32> = rng.pick(&[vec![10u32], vec![13], vec![13, 10]]).clone();
        let unit: Vec<u32> = rng.pick(&[vec![97u32], vec![97, 98, 99], vec![]]).clone();
        return json!({"op": "stress", "rep": {"unit": unit, "sep": sep, "n": n}, "calls": calls});
    }
    let nthr = 2 + rng.below(3) as usize;
    let n = rng.below((size * 6) as u64 + 1) as usize;
    let text = crate::c15::gen_text(rng, n);
    let nlines = 1 + text.iter().filter(|&&c| c == 10 || c == 13).count() as i64;
    let calls: Vec<Vec<Value>> = (0..nthr).map(|_| (0..1 + rng.below(3)).map(|_| match rng.below(6) {
        0 => json!({"op": "line_count"}),
        1 if rng.chance(1, 2) => json!({"op": "clone"}),      // the thread goes on with its own clone of the view
        2 => json!({"op": "it_next"}),                         // one step of a line iterator that stays alive across this thread's other calls
        1 => json!({"op": "lines"}),
        _ => json!({"op": "get_line", "i": rng.range(0, nlines + 1)}),
    }).collect()).collect();
    if rng.chance(1, 2) {
        let len = rng.below(24) as usize;
        let sched: Vec<u64> = (0..len).map(|_| 1 + rng.below(nthr as u64)).collect();
        json!({"op": "conc", "text": text, "calls": calls, "sched": sched})
    } else {
        json!({"op": "stress", "text": text, "calls": calls})
    }
}
