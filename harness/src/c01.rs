//! C01 — write/read round trip;  C03 — serialised form.  Same cases, different events.
use crate::c02::{gen_flat_doc, gen_index_doc, shuffle, NAME_POOL, ROOT_POOL, SRC_POOL, UUIDS};
use crate::doc::*;
use crate::maps::*;
use crate::*;
use serde_json::{json, Value};
use sourcemap::DecodedMap;

/// every way of obtaining the real map a case describes: (how, model?, doc?, map)
pub fn realise(case: &Value) -> Vec<(String, Value, Value, DecodedMap)> {
    let mut v = vec![];
    if case.get("doc").is_some() {
        let doc = normalise_doc(&case["doc"]);
        if let Ok(d) = sourcemap::decode_slice(&write_doc(&doc)) {
            v.push(("doc".to_string(), json!([]), json!([doc]), d));
        }
    } else {
        let m = model_from_case(case);
        let hows: Vec<String> = match case.get("how") { Some(h) => vec![h.as_str().unwrap().to_string()], None => vec!["new".into(), "builder".into(), "builder_mixed".into(), "doc".into()] };
        for how in hows {
            if let Some(sm) = build(&m, &how) {
                v.push((how, json!([m.clone()]), json!([]), DecodedMap::Regular(sm)));
            }
        }
        if case.get("how").is_none() {
            // the map reached through its in-place setters (after construction, with whatever root it has): what its
            // getters report afterwards is what writing and reading back must preserve
            // (for the TLC-enumerated cases, which carry no string tables of their own, one case in three)
            let digest: i64 = m["toks"].as_array().map_or(0, |a| a.iter().flat_map(|t| t.as_array().unwrap().iter().map(|x| x.as_i64().unwrap())).enumerate().map(|(i, x)| (i as i64 + 1) * x).sum());
            let take = case.get("sources").is_some() || digest.rem_euclid(3) == 0;
            if let Some(mut sm) = if take { build(&m, "new") } else { None } {
                let key = m["toks"].as_array().map_or(0, |a| a.len()) as u32;
                let n = sm.get_source_count();
                if key % 3 == 1 { sm.set_source_root(Some("moved/ü")); }
                if n > 0 {
                    sm.set_source(key % n, if key % 2 == 0 { "renamed/é.js" } else { "/abs/renamed.js" });
                    sm.set_source_contents((key + 1) % n, if key % 4 == 0 { None } else { Some("patched();") });
                }
                if key % 5 == 2 { sm.set_source_root(None::<String>); }
                if key % 2 == 1 { sm.set_file(Some("f2.js")); }
                if n > 0 && key % 3 == 0 { sm.add_to_ignore_list(key % n); }
                // every public mutator belongs to the route: remove_names() empties the table and leaves the raw ids behind
                if key % 4 == 3 || (key % 4 == 1 && sm.get_name_count() > 0 && digest.rem_euclid(2) == 0) { sm.remove_names(); }
                v.push(("new+setters".to_string(), json!([]), json!([]), DecodedMap::Regular(sm)));
            }
        }
        if case.get("sources").is_none() && case.get("how").is_none() {
            // the same token list over string tables whose entries are all EQUAL strings: tokens that
            // differ only in which duplicate entry they reference are still different tokens
            let mut m2 = m.clone();
            m2["sources"] = Value::Array(m["sources"].as_array().unwrap().iter().map(|_| cps("dup.js")).collect());
            m2["names"] = Value::Array(m["names"].as_array().unwrap().iter().map(|_| json!("same")).collect());
            if let Some(sm) = build(&m2, "new") {
                v.push(("new".to_string(), json!([m2]), json!([]), DecodedMap::Regular(sm)));
            }
        }
    }
    v
}

pub fn run(case: &Value, em: &mut Emitter) {
    for (how, m, doc, d) in realise(case) {
        let p1 = proj_map(&d);
        em.emit("roundtrip", json!({"how": how, "m": m, "doc": doc, "p1": p1}), roundtrip_out(&d));
    }
}
pub fn run_c03(case: &Value, em: &mut Emitter) {
    if case["op"] == "bigmap" {
        crate::big::run_encode_big(case, em);
        return;
    }
    for (how, _m, _doc, d) in realise(case) {
        let p1 = proj_map(&d);
        em.emit("encode", json!({"how": how, "p1": p1, "via": "direct"}), encode_out(&d));
        // the same map written into a sink that accepts 1..4096 bytes per call
        let cap = [1usize, 7, 64, 4096][(p1["ntok"].as_u64().unwrap_or(0) % 4) as usize];
        em.emit("encode", json!({"how": how, "p1": p1, "via": "short_sink"}), encode_out_short(&d, cap));
        // a sink that FAILS at byte `at` (the first byte, the middle, the last byte): to_writer must report the failure --
        // Ok(()) means the sink holds the complete document
        if let Ok(full) = crate::maps::to_bytes(&d) {
            let len = full.len();
            for at in [0usize, len / 2, len.saturating_sub(1)] {
                let out = guard(|| {
                    let mut sink = FailingSink { taken: vec![], fail_at: at };
                    let res = match &d { DecodedMap::Regular(m) => m.to_writer(&mut sink), DecodedMap::Hermes(h) => h.to_writer(&mut sink), DecodedMap::Index(i) => i.to_writer(&mut sink) };
                    json!({"k": "ok", "res": if res.is_ok() { "ok" } else { "err" }, "delivered": sink.taken.len(), "prefix_ok": full.starts_with(&sink.taken)})
                });
                em.emit("encode_fail", json!({"how": how, "at": at, "len": len}), out);
            }
        }
        // maps produced by rewrite / flatten / adjust_mappings
        match &d {
            DecodedMap::Regular(sm) => {
                if let Ok(r) = sm.clone().rewrite(&sourcemap::RewriteOptions::default()) {
                    let d2 = DecodedMap::Regular(r);
                    em.emit("encode", json!({"how": how, "p1": proj_map(&d2), "via": "rewrite"}), encode_out(&d2));
                }
                let mut a = sm.clone();
                a.adjust_mappings(sm);
                let d3 = DecodedMap::Regular(a);
                em.emit("encode", json!({"how": how, "p1": proj_map(&d3), "via": "adjust"}), encode_out(&d3));
                if let Ok(u) = sm.to_data_url() {
                    // the data URL payload is the same serialised form
                    if let Some(b64) = u.split("base64,").nth(1) {
                        if let Ok(bytes) = data_encoding::BASE64.decode(b64.as_bytes()) {
                            em.emit("encode", json!({"how": how, "p1": p1, "via": "data_url"}), json!({"k": "ok", "doc": parse_doc(&bytes)}));
                        }
                    }
                }
            }
            DecodedMap::Index(smi) => {
                if let Ok(f) = smi.flatten() {
                    let d2 = DecodedMap::Regular(f);
                    em.emit("encode", json!({"how": how, "p1": proj_map(&d2), "via": "flatten"}), encode_out(&d2));
                }
            }
            DecodedMap::Hermes(_) => {}
        }
    }
}

/// accepts bytes up to position `fail_at`, then every write fails (an error, not a short write)
struct FailingSink { taken: Vec<u8>, fail_at: usize }
impl std::io::Write for FailingSink {
    fn write(&mut self, buf: &[u8]) -> std::io::Result<usize> {
        let room = self.fail_at.saturating_sub(self.taken.len());
        if room == 0 { return Err(std::io::Error::new(std::io::ErrorKind::Other, "sink full")); }
        let n = room.min(buf.len());
        self.taken.extend_from_slice(&buf[..n]);
        Ok(n)
    }
    fn flush(&mut self) -> std::io::Result<()> { Ok(()) }
}

/// random well-formed flat model (no range tokens: those are C07)
pub fn gen_model(rng: &mut Rng, size: usize, with_range: bool) -> Value {
    // one case in twelve is LARGE: hundreds of tokens, more than 64 sources and names, long lines
    let large = rng.chance(1, 25);
    let nsrc = if large { 60 + rng.below(30) } else { rng.below(5) };
    let nnm = if large { 60 + rng.below(30) } else { rng.below(5) };
    let ntok = if large { 150 + rng.below(250) } else { rng.below((size * 12) as u64 + 1) };
    let mut toks: Vec<Value> = vec![];
    let (mut line, mut col) = (0i64, 0i64);
    for _ in 0..ntok {
        match rng.below(10) {
            0 => { line += if rng.chance(1, 8) { 64 * rng.range(1, 3) } else { 1 + rng.range(0, 3) }; col = rng.range(0, 5); }
            1 | 2 => {}                                   // same position as the previous token
            3 => {
                // a column delta from every VLQ digit-count class; columns stay below 2^28 (a map composed with itself doubles them; the judge holds numbers below 2^30)
                let d = 1 + vlq_class(rng, 6);
                if col + d >= (1 << 28) { line += 1; col = d.min((1 << 28) - 1); } else { col += d; }
            }
            _ => { col += rng.range(1, 30); }
        }
        let dup = !toks.is_empty() && rng.chance(1, 12);
        if dup {
            let t: Value = toks[toks.len() - 1].clone();
            if t[0].as_i64().unwrap() == line { toks.push(t); continue; }
        }
        let (src, nm) = if nsrc > 0 && rng.chance(5, 6) {
            (rng.below(nsrc) as i64, if nnm > 0 && rng.chance(1, 2) { rng.below(nnm) as i64 } else { -1 })
        } else { (-1, -1) };
        // (the origin 0:0 of a source is a frequent original position: the smallest payload there is)
        let (sl, sc) = if src >= 0 && rng.chance(1, 6) { (0, 0) } else if src >= 0 {
            (if rng.chance(1, 10) { vlq_class(rng, 5) } else { rng.range(0, 2000) },
             if rng.chance(1, 10) { vlq_class(rng, 6) } else { rng.range(0, 300) })
        } else { (0, 0) };
        // now and then the original position differs from the previous token's by exactly a class boundary
        // (+-15/16/17, +-511/512/513, +-16383/16384/16385): the last value of one VLQ digit count, the first of the next
        let (sl, sc) = match toks.last() {
            Some(p) if src >= 0 && p[2].as_i64().unwrap() >= 0 && rng.chance(1, 8) => {
                let d = *rng.pick(&[15i64, 16, 17, 511, 512, 513, 16383, 16384, 16385]) * if rng.chance(1, 2) { 1 } else { -1 };
                if rng.chance(1, 2) { (sl, (p[4].as_i64().unwrap() + d).max(0)) } else { ((p[3].as_i64().unwrap() + d).max(0), sc) }
            }
            _ => (sl, sc),
        };
        let rg = if with_range && rng.chance(1, 4) { 1 } else { 0 };
        toks.push(json!([line, col, src, sl, sc, nm, rg]));
    }
    let uniq = rng.chance(1, 2);
    let sources: Vec<Value> = (0..nsrc).map(|i| if uniq { cps(&format!("src/ü{}.js", i)) } else if rng.chance(1, 3) { cps(&gen_src_name(rng)) } else { cps(*rng.pick(SRC_POOL)) }).collect();
    let names: Vec<Value> = (0..nnm).map(|i| if uniq { json!(format!("n{}", i)) } else { json!(*rng.pick(NAME_POOL)) }).collect();
    // the same spelling in two tables: some names are spelled exactly like a source (the tables are separate)
    let mut names = names;
    if !sources.is_empty() && rng.chance(1, 4) {
        for n in names.iter_mut() { if rng.chance(1, 2) { *n = json!(cps_to_string(rng.pick(&sources))); } }
    }
    let mut m = json!({"op": "map", "toks": toks, "nsrc": nsrc, "nnm": nnm, "sources": sources, "names": names});
    if rng.chance(1, 2) { m["root"] = json!([if rng.chance(1, 3) { cps(&gen_root_name(rng)) } else { cps(*rng.pick(ROOT_POOL)) }]); }
    if rng.chance(1, 2) { m["file"] = json!([*rng.pick(NAME_POOL)]); }
    if rng.chance(1, 3) { m["debug_id"] = json!([*rng.pick(UUIDS)]); }
    if nsrc > 0 && rng.chance(1, 2) {
        m["contents"] = Value::Array((0..nsrc).map(|_| if rng.chance(1, 3) { json!([]) } else if rng.chance(1, 6) { json!([gen_content(rng)]) } else { json!([*rng.pick(NAME_POOL)]) }).collect());
        if rng.chance(1, 6) {
            // a large embedded source made of the junk-header start bytes: whatever the chunk size of a
            // buffered reader is, some chunk of the serialised form starts with one of them
            let big: String = ")]}'".repeat(2500 + rng.below(600) as usize);
            m["contents"][0] = json!([big]);
        }
    }
    if nsrc > 0 && rng.chance(1, 4) {
        let mut ig: Vec<u64> = (0..nsrc).filter(|_| rng.chance(1, 2)).collect();
        // the crate does not validate ignore-list entries: ids at or beyond the number of sources are legal input
        if rng.chance(1, 4) { ig.push(nsrc + rng.below(3)); }
        shuffle(rng, &mut ig);
        m["ignore"] = json!(ig);
    }
    m
}

pub fn gen_c03(rng: &mut Rng, size: usize) -> Value {
    if rng.chance(1, 4) { crate::big::gen_big(rng, size) } else { gen(rng, size) }
}
pub fn gen(rng: &mut Rng, size: usize) -> Value {
    match rng.below(10) {
        0 | 1 => json!({"op": "map", "doc": strip_junk(gen_index_doc(rng, size, 2))}),
        2 => json!({"op": "map", "doc": strip_junk(gen_flat_doc(rng, size, true))}),
        3 => json!({"op": "map", "doc": strip_junk(gen_flat_doc(rng, size, false))}),
        _ => gen_model(rng, size, false),
    }
}
fn strip_junk(mut d: Value) -> Value {
    d.as_object_mut().unwrap().remove("junk");
    d
}
