//! C08 — index maps: flatten and section lookup
use crate::doc::*;
use crate::maps::{own_mappings, own_range};
use crate::*;
use serde_json::{json, Value};
use sourcemap::{DecodedMap, Token};

/// abstract node (spec shape) -> abstract document for the harness's writer
fn node_doc(n: &Value) -> Value {
    if n["kind"] == "index" {
        let secs: Vec<Value> = n["sections"].as_array().unwrap().iter().map(|s| {
            let mut o = json!({"off": s["off"], "url": s["url"]});
            if let Some(m) = s["map"].as_array().unwrap().first() { o["map"] = json!([node_doc(m)]); }
            o
        }).collect();
        let mut d = json!({"version": [3], "sections": [secs]});
        if let Some(f) = n["file"].as_array().and_then(|a| a.first()) { d["file"] = json!([{"s": f}]); }
        d
    } else {
        let toks = n["toks"].as_array().unwrap();
        let mut d = json!({"version": [3],
            "sources": [n["sources"].as_array().unwrap().iter().map(|s| json!([s])).collect::<Vec<_>>()],
            "names": [n["names"].as_array().unwrap().iter().map(|s| json!({"s": s})).collect::<Vec<_>>()],
            "mappings": [own_mappings(toks)]});
        if let Some(r) = own_range(toks) { d["range"] = json!([r]); }
        if n["contents"].as_array().map_or(false, |c| c.iter().any(|x| !x.as_array().unwrap().is_empty())) { d["contents"] = json!([n["contents"]]); }
        if n["ignore"].as_array().map_or(false, |c| !c.is_empty()) { d["ignore"] = json!([n["ignore"]]); }
        if n["kind"] == "hermes" { d["xfs"] = json!([n["sources"].as_array().unwrap().iter().map(|_| json!([])).collect::<Vec<_>>()]); }
        d
    }
}

fn loc(t: Option<Token<'_>>) -> Value {
    match t {
        None => json!([]),
        Some(t) => json!([{"src": match t.get_source() { Some(s) => json!([cps(s)]), None => json!([]) },
                           "sl": num(t.get_src_line()), "sc": num(t.get_src_col()), "nm": opt_str(t.get_name())}]),
    }
}

fn observe(smi: &sourcemap::SourceMapIndex, qs: &[Value], hist: &str, em: &mut Emitter) {
    let p = proj_map(&DecodedMap::Index(smi.clone()));
    let out = guard(|| {
        let flat = smi.flatten();
        let idxres: Vec<Value> = qs.iter().map(|q| loc(smi.lookup_token(q[0].as_u64().unwrap() as u32, q[1].as_u64().unwrap() as u32))).collect();
        let (fl, flatres) = match &flat {
            Ok(sm) => {
                let mut pj = proj_sm(sm);
                pj.insert("kind".into(), json!("regular"));
                (json!({"k": "ok", "p": Value::Object(pj)}),
                 qs.iter().map(|q| loc(sm.lookup_token(q[0].as_u64().unwrap() as u32, q[1].as_u64().unwrap() as u32))).collect::<Vec<_>>())
            }
            Err(_) => (json!({"k": "err"}), vec![]),
        };
        json!({"k": "ok", "flat": fl, "idx": idxres, "flatres": flatres})
    });
    em.emit("index", json!({"p": p, "qs": qs, "hist": hist}), out);
}

pub fn run(case: &Value, em: &mut Emitter) {
    let doc = if case.get("doc").is_some() { normalise_doc(&case["doc"]) } else { normalise_doc(&node_doc(&case["idx"])) };
    let mut smi = match sourcemap::decode_slice(&write_doc(&doc)) { Ok(DecodedMap::Index(i)) => i, _ => return };
    let qs: Vec<Value> = match case.get("qs") { Some(q) => q.as_array().unwrap().clone(), None => (0..5).flat_map(|l| (0..8).map(move |c| json!([l, c]))).collect() };
    observe(&smi, &qs, "decoded", em);
    // the SAME object, changed through get_section_mut after it has been flattened and queried, then observed again:
    // the statement is about the index as it is now
    let n = smi.get_section_count();
    let k = (case.get("mut").and_then(|m| m.as_u64()).unwrap_or(1) as u32) % n.max(1);
    let how = case.get("mut").and_then(|m| m.as_u64()).unwrap_or(1) / 7 % 3;
    if n == 0 { return; }
    let changed = guard(|| {
        let other = smi.get_section((k + 1) % n).and_then(|s| s.get_sourcemap().cloned());
        let sec = smi.get_section_mut(k).unwrap();
        match how {
            0 => { sec.set_sourcemap(None); json!("unresolve") }
            1 => { sec.set_sourcemap(other); json!("replace") }
            _ => match sec.get_sourcemap_mut() {
                Some(DecodedMap::Regular(sm)) if sm.get_source_count() > 0 => { sm.set_source_contents(0, Some("changed afterwards")); json!("contents") }
                _ => json!("none"),
            },
        }
    });
    if changed.get("k").is_some() { em.emit("index", json!({"p": {}, "qs": [], "hist": "mutation panicked"}), changed); return; }
    if changed != json!("none") {
        observe(&smi, &qs, changed.as_str().unwrap(), em);
        let c = smi.clone();
        observe(&c, &qs, "clone-after-change", em);
    }
}

/// a well-formed index: sections at strictly increasing offsets whose tokens stay before the next offset
fn gen_index(rng: &mut Rng, size: usize, depth: usize) -> (Value, i64) {
    // now and then MANY sections (18..80), each small
    let many = depth == 0 && rng.chance(1, 15);
    let nsec = if many { 18 + rng.below(62) } else { 1 + rng.below(if size > 4 { 12 } else { 4 }) };
    let mut line = 0i64;
    let mut secs = vec![];
    let pool = ["a.js", "b.js", "lib/c.js", "a.js"];
    for _ in 0..nsec {
        let offc = if rng.chance(1, 2) { 0 } else if rng.chance(1, 8) { vlq_class(rng, 4) } else { rng.range(1, 9) };
        let off_line = line;
        let mut s = json!({"off": [off_line, offc]});
        let height: i64;
        match rng.below(8) {
            0 => { s["url"] = json!(["http://x/s.map"]); height = 1; }                         // unresolved section
            1 if depth > 0 => { let (d, h) = gen_index(rng, size.min(3), depth - 1); s["map"] = json!([d]); height = h + 1; }
            k => {
                let nsrc = if !many && rng.chance(1, 10) { 60 + rng.below(20) } else { 1 + rng.below(3) };
                let nnm = if !many && rng.chance(1, 10) { 60 + rng.below(20) } else { rng.below(3) };
                let nl = 1 + rng.below(4) as i64;
                let mut toks = vec![];
                for l in 0..nl {
                    let mut c = 0i64;
                    for _ in 0..rng.below(if many { 3 } else if size > 4 { 30 } else { 4 }) {
                        c += if rng.chance(1, 12) { 1 + vlq_class(rng, 4) } else { rng.range(if toks.is_empty() && l == 0 { 0 } else { 1 }, 6) };
                        let src = if rng.chance(1, 8) { -1 } else { rng.below(nsrc) as i64 };
                        let nm = if src >= 0 && nnm > 0 && rng.chance(1, 2) { rng.below(nnm) as i64 } else { -1 };
                        toks.push(json!([l, c, src, rng.range(0, 20), rng.range(0, 40), nm, if src >= 0 && rng.chance(1, 6) { 1 } else { 0 }]));
                    }
                }
                let mut d = json!({"version": [3],
                    "sources": [(0..nsrc).map(|i| if nsrc > 10 { json!([cps(&format!("big/src{}.js", i))]) } else { json!([cps(*rng.pick(&pool))]) }).collect::<Vec<_>>()],
                    "names": [(0..nnm).map(|i| if nnm > 10 { json!({"s": format!("name{}", i)}) } else { json!({"s": *rng.pick(&["f", "g", "f", ""])}) }).collect::<Vec<_>>()],
                    "mappings": [own_mappings(&toks)]});
                if let Some(r) = own_range(&toks) { d["range"] = json!([r]); }
                // a section's map may have a source root (the flattened map has none: names are carried over joined)
                if rng.chance(1, 3) { d["root"] = json!([cps(*rng.pick(&["lib", "lib/", "/abs", "http://h/x", ""]))]); }
                if rng.chance(1, 2) { d["contents"] = json!([(0..nsrc).map(|i| if rng.chance(1, 3) { json!([]) } else if rng.chance(1, 4) { json!([""]) } else { json!([format!("content {} of section", i)]) }).collect::<Vec<_>>()]); }
                if rng.chance(1, 3) || nsrc > 10 { d["ignore"] = json!([[rng.below(nsrc), nsrc - 1, (nsrc / 2 + 30).min(nsrc - 1)]]); }
                if k == 2 { d["xfs"] = json!([(0..nsrc).map(|_| json!([])).collect::<Vec<_>>()]); }
                s["map"] = json!([d]);
                height = nl;
            }
        }
        secs.push(s);
        line = off_line + height + if rng.chance(1, 12) { 64 * rng.range(1, 3) } else { rng.range(0, 2) };
    }
    (json!({"version": [3], "file": [{"s": "bundle.js"}], "sections": [secs]}), line)
}

pub fn gen(rng: &mut Rng, size: usize) -> Value {
    let depth = if rng.chance(1, 3) { 2 } else { 0 };
    let (doc, lines) = gen_index(rng, size, depth);
    // queries: anywhere, and around every section start (left / at / right of its column offset, the lines around it)
    let mut qs: Vec<Value> = (0..30).map(|_| json!([rng.range(0, lines + 1), if rng.chance(1, 10) { vlq_class(rng, 4) } else { rng.range(0, 30) }])).collect();
    let offs: Vec<(i64, i64)> = doc["sections"][0].as_array().unwrap().iter().map(|s| (s["off"][0].as_i64().unwrap(), s["off"][1].as_i64().unwrap())).collect();
    for _ in 0..14 {
        let (l, c) = *rng.pick(&offs);
        qs.push(json!([(l + rng.range(-1, 1)).max(0), (c + rng.range(-1, 2)).max(0)]));
    }
    json!({"op": "index", "doc": doc, "qs": qs, "mut": rng.below(1000)})
}
