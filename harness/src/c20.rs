//! C20 — indexed RAM bundles
use crate::doc::num;
use crate::*;
use serde_json::{json, Value};
use sourcemap::ram_bundle::{is_ram_bundle_slice, RamBundle};

fn res(r: Result<Option<Vec<u8>>, ()>) -> Value {
    match r {
        Ok(Some(v)) => json!({"k": "ok", "v": v}),
        Ok(None) => json!({"k": "none", "v": []}),
        Err(()) => json!({"k": "err", "v": []}),
    }
}

pub fn run(case: &Value, em: &mut Emitter) {
    let bytes: Vec<u8> = case["bytes"].as_array().unwrap().iter().map(|b| b.as_u64().unwrap() as u8).collect();
    let nslots = case["nslots"].as_u64().unwrap_or(3);
    let mut ids: Vec<u64> = (0..nslots + 2).collect();
    ids.push(2147483647);          // stand-in: an id far beyond any table (the call uses usize::MAX / 8 + 1, 1 << 61, usize::MAX in turn)
    // TLC-enumerated bundles carry no session: a fixed one (next, nth(1), size_hint, then every second module)
    let steps: Vec<Value> = case.get("steps").and_then(|s| s.as_array().cloned()).unwrap_or_else(||
        vec![json!({"op": "next", "n": 0}), json!({"op": "nth", "n": 1}), json!({"op": "hint", "n": 0}), json!({"op": "step_by", "n": 2})]);
  // every construction route: borrowed slice, owned vector
  for route in ["slice", "vec"] {
    let out = guard(|| {
        let is = is_ram_bundle_slice(&bytes);
        let parsed = if route == "slice" { RamBundle::parse_indexed_from_slice(&bytes) } else { RamBundle::parse_indexed_from_vec(bytes.clone()) };
        match parsed {
            Err(_) => json!({"k": "err", "is": is}),
            Ok(b) => {
                let count = b.module_count();
                let startup = res(b.startup_code().map(|s| Some(s.to_vec())).map_err(|_| ()));
                let huge = [usize::MAX / 8 + 1, 1usize << 61, usize::MAX, 1usize << 32];
                let gets: Vec<Value> = ids.iter().map(|&i| {
                    let id = if i == 2147483647 { huge[bytes.len() % huge.len()] } else { i as usize };
                    res(b.get_module(id).map(|o| o.map(|m| m.data().to_vec())).map_err(|_| ()))
                }).collect();
                // the iterator, bounded: ids below 64 only (a huge count would otherwise loop 2^32 times)
                let mut iter = vec![];
                let mut expect_id = 0usize;
                for item in b.iter_modules() {
                    match item {
                        Ok(m) => {
                            if m.id() >= 256 { break; }
                            expect_id = m.id() + 1;
                            iter.push(json!({"id": m.id(), "r": {"k": "ok", "v": m.data().to_vec()}}));
                        }
                        Err(_) => {
                            // the failing id is the first id >= expect_id that is not an empty slot
                            let mut id = expect_id;
                            while id < 256 && matches!(b.get_module(id), Ok(None)) { id += 1; }
                            if id >= 256 { break; }
                            iter.push(json!({"id": id, "r": {"k": "err", "v": []}}));
                            expect_id = id + 1;
                        }
                    }
                    if iter.len() >= 256 { break; }
                }
                // one cursor session on the module iterator (small tables only); an item is (id, data) or an error
                let sess = if count <= 256 {
                    let proj = |item: Result<sourcemap::ram_bundle::RamBundleModule, sourcemap::Error>| match item {
                        Ok(m) => json!({"id": m.id(), "r": {"k": "ok", "v": m.data().to_vec()}}),
                        Err(_) => json!({"id": -1, "r": {"k": "err", "v": []}}),
                    };
                    json!([crate::e05::session(b.iter_modules(), proj, count + 2, &steps)])
                } else { json!([]) };
                json!({"k": "ok", "is": is, "count": num(count.min(u32::MAX as usize) as u32), "startup": startup, "gets": gets, "iter": iter, "sess": sess})
            }
        }
    });
    em.emit("bundle", json!({"bytes": case["bytes"], "ids": ids, "steps": steps, "route": route}), out);
  }
}

fn le(n: u32) -> [u8; 4] { n.to_le_bytes() }

pub fn gen(rng: &mut Rng, size: usize) -> Value {
    // a model bundle ...
    let cap = if rng.chance(1, 10) { 140 } else { size as u64 + 2 };
    let nslots = rng.below(cap) as usize;
    let startup: Vec<u8> = (0..1 + rng.below(20)).map(|_| rng.below(256) as u8).collect();
    let slots: Vec<Option<Vec<u8>>> = (0..nslots).map(|_| if rng.chance(1, 4) { None } else {
        let mut p: Vec<u8> = (0..rng.below(12)).map(|_| rng.below(256) as u8).collect();
        // payloads that begin or end with bytes that mean something elsewhere (BOMs, the bundle magic, NUL, a line end)
        if rng.chance(1, 5) { let pre: &[u8] = *rng.pick(&[&[0xEFu8, 0xBB, 0xBF][..], &[0xFF, 0xFE][..], &[0xFE, 0xFF][..], &[0xE5, 0xD1, 0x0B, 0xFB][..], &[0][..], &[b'\n'][..]]);
                              if rng.chance(1, 2) { let mut q = pre.to_vec(); q.extend(&p); p = q; } else { p.extend(pre); } }
        Some(p) }).collect();
    let mut order: Vec<usize> = (0..nslots).filter(|&i| slots[i].is_some()).collect();
    crate::c02::shuffle(rng, &mut order);
    let mut rel = vec![0u32; nslots];
    let mut data: Vec<u8> = startup.clone();
    for &i in &order {
        rel[i] = data.len() as u32;
        data.extend(slots[i].as_ref().unwrap());
        data.push(0);
    }
    let mut b: Vec<u8> = vec![];
    b.extend(le(0xFB0B_D1E5)); b.extend(le(nslots as u32)); b.extend(le(startup.len() as u32));
    for i in 0..nslots {
        match &slots[i] { None => { b.extend(le(0)); b.extend(le(0)); } Some(p) => { b.extend(le(rel[i])); b.extend(le(p.len() as u32 + 1)); } }
    }
    b.extend(&data);
    // ... and corruptions of it
    let total = b.len() as u32;
    let nfields = 2 + 2 * nslots;
    match rng.below(9) {
        0 | 1 => {}
        8 => {
            // a 32-bit field (the magic included) written in the other byte order
            let f = rng.below(nfields as u64 + 1) as usize;
            b[4 * f..4 * f + 4].reverse();
        }
        2 => { let n = rng.below(b.len() as u64) as usize; b.truncate(n); }
        3 | 4 | 5 => {
            let f = rng.below(nfields as u64) as usize;
            let at = 4 + 4 * f;
            let sco = 12 + 8 * nslots as u32;
            let (r40, rtot) = (rng.below(40) as u32, rng.below(total as u64 + 3) as u32);
            let v: u32 = *rng.pick(&[0u32, 1, total - sco.min(total), total, total + 1, u32::MAX, 1 << 31, (1u32 << 31) - 1,
                                     0u32.wrapping_sub(sco), 0u32.wrapping_sub(sco).wrapping_sub(1), 0u32.wrapping_sub(sco).wrapping_add(r40),
                                     rtot, 65536, 65535]);
            b[at..at + 4].copy_from_slice(&le(v));
        }
        6 => { let k = rng.below(4) as usize; b[k] = b[k].wrapping_add(1 + rng.below(255) as u8); }
        _ => { for _ in 0..1 + rng.below(4) { let k = rng.below(b.len() as u64) as usize; b[k] = rng.below(256) as u8; } }
    }
    json!({"op": "bundle", "bytes": b, "nslots": nslots.min(150), "steps": crate::c04::gen_steps(rng, nslots.min(8))})
}
