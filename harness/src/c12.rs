//! C12 — reader / slice / data-URL decoding under every chunking of the stream
use crate::doc::*;
use crate::*;
use serde_json::{json, Value};
use std::io::Read;

pub struct ChunkedReader {
    /// every `interrupt`-th call fails with ErrorKind::Interrupted first (0 = never); callers must retry such a read
    pub interrupt: usize,
    /// once `pos` has reached this offset every read fails with a hard error (never EOF)
    pub fail_at: Option<usize>,
    calls: usize,
    data: Vec<u8>,
    pos: usize,
    sizes: Vec<usize>,
    i: usize,
    tail: usize,
    pub served: Vec<usize>,
}
impl ChunkedReader {
    pub fn new(data: Vec<u8>, sizes: Vec<usize>, tail: usize) -> Self {
        ChunkedReader { interrupt: 0, fail_at: None, calls: 0, data, pos: 0, sizes, i: 0, tail, served: vec![] }
    }
}
impl Read for ChunkedReader {
    fn read(&mut self, buf: &mut [u8]) -> std::io::Result<usize> {
        if let Some(f) = self.fail_at {
            if self.pos >= f && !buf.is_empty() { return Err(std::io::Error::new(std::io::ErrorKind::Other, "device error")); }
        }
        let rem = self.data.len() - self.pos;
        if rem == 0 || buf.is_empty() { return Ok(0); }
        self.calls += 1;
        if self.interrupt > 0 && self.calls % self.interrupt == 0 { return Err(std::io::Error::from(std::io::ErrorKind::Interrupted)); }
        let k = if self.i < self.sizes.len() { self.sizes[self.i] } else { self.tail };
        self.i += 1;
        let mut n = k.max(1).min(buf.len()).min(rem);
        if let Some(f) = self.fail_at { n = n.min(f - self.pos); }
        buf[..n].copy_from_slice(&self.data[self.pos..self.pos + n]);
        self.pos += n;
        self.served.push(n);
        Ok(n)
    }
}

fn bytes_of(v: &Value) -> Vec<u8> { v.as_array().unwrap().iter().map(|b| b.as_u64().unwrap() as u8).collect() }
fn sizes_of(v: &Value) -> Vec<usize> { v.as_array().map(|a| a.iter().map(|b| b.as_u64().unwrap() as usize).collect()).unwrap_or_default() }

fn outcome(r: sourcemap::Result<sourcemap::DecodedMap>) -> Value {
    match r {
        Ok(d) => { let mut p = proj_map(&d); p["k"] = json!("ok"); p }
        Err(_) => json!({"k": "err"}),
    }
}

fn reader_event(input: &[u8], sizes: &[usize], em: &mut Emitter) {
    let mut served = vec![];
    let out = guard(|| {
        let mut rdr = sourcemap::verif::StripHeaderReader::new(ChunkedReader::new(input.to_vec(), sizes.to_vec(), 3));
        let mut delivered: Vec<u8> = vec![];
        let mut err = false;
        let mut buf = [0u8; 64];
        let mut calls = 0;
        loop {
            calls += 1;
            match rdr.read(&mut buf) {
                Ok(0) => break,
                Ok(n) => delivered.extend(&buf[..n]),
                Err(_) => { err = true; break; }
            }
            if calls > 10000 { return json!({"k": "timeout"}); }
        }
        // recover the inner reader's log of served chunk sizes
        let slice = match sourcemap::verif::strip_junk_header(input) {
            Ok(rest) => json!({"err": false, "rest": rest}),
            Err(_) => json!({"err": true, "rest": []}),
        };
        json!({"k": "ok", "err": err, "delivered": delivered, "slice": slice, "calls": calls})
    });
    // served sizes are a deterministic function of (input, sizes, buffer 64): recompute them
    {
        let mut c = ChunkedReader::new(input.to_vec(), sizes.to_vec(), 3);
        let mut buf = [0u8; 64];
        while let Ok(n) = c.read(&mut buf) { if n == 0 { break; } }
        served.extend(c.served);
    }
    em.emit("reader", json!({"input": input, "served": served}), out);
}

fn decode_event(bytes: &[u8], sizes: &[usize], valid: bool, em: &mut Emitter) {
    let out = guard(|| {
        let r = outcome(sourcemap::decode(ChunkedReader::new(bytes.to_vec(), sizes.to_vec(), 5)));
        let s = outcome(sourcemap::decode_slice(bytes));
        let ir = sourcemap::is_sourcemap(ChunkedReader::new(bytes.to_vec(), sizes.to_vec(), 5));
        // the same stream from a source whose reads fail with ErrorKind::Interrupted every 2nd..4th call (to be retried)
        let k = 2 + bytes.len() % 3;
        let mut c1 = ChunkedReader::new(bytes.to_vec(), sizes.to_vec(), 5); c1.interrupt = k;
        let ri = outcome(sourcemap::decode(c1));
        let mut c2 = ChunkedReader::new(bytes.to_vec(), sizes.to_vec(), 5); c2.interrupt = k;
        let iri = sourcemap::is_sourcemap(c2);
        let is = sourcemap::is_sourcemap_slice(bytes);
        // a source that FAILS (a hard error, not end of input) before the last byte was delivered: at the first byte, in
        // the middle, at the last byte -- a map must never come out of an incomplete stream
        let mut rf = vec![];
        let mut irf = vec![];
        let (mut pfx, mut ipfx) = (vec![], vec![]);
        if !bytes.is_empty() {
            for at in [0usize, bytes.len() / 2, bytes.len() - 1] {
                let mut c = ChunkedReader::new(bytes.to_vec(), sizes.to_vec(), 8192); c.fail_at = Some(at);
                rf.push(outcome(sourcemap::decode(c))["k"].clone());
                let mut c = ChunkedReader::new(bytes.to_vec(), sizes.to_vec(), 8192); c.fail_at = Some(at);
                irf.push(json!(sourcemap::is_sourcemap(c)));
                // what the bytes delivered before the failure are, read as a slice
                pfx.push(outcome(sourcemap::decode_slice(&bytes[..at]))["k"].clone());
                ipfx.push(json!(sourcemap::is_sourcemap_slice(&bytes[..at])));
            }
        }
        let url = format!("data:application/json;base64,{}", data_encoding::BASE64.encode(bytes));
        let du = outcome(sourcemap::decode_data_url(&url));
        json!({"k": "ok", "reader": r, "slice": s, "is_reader": ir, "is_slice": is, "dataurl": du, "reader_int": ri, "is_reader_int": iri, "reader_fail": rf, "is_reader_fail": irf, "prefix_slice": pfx, "is_prefix_slice": ipfx})
    });
    em.emit("decode", json!({"bytes": bytes, "sizes": sizes, "valid": valid}), out);
}

const DOC: &[u8] = br#"{"version":3,"sources":["a.js"],"names":["n"],"mappings":"AAAAA,CAAC;AACA"}"#;

pub fn run(case: &Value, em: &mut Emitter) {
    match case["op"].as_str().unwrap() {
        "read" => {
            let input = bytes_of(&case["input"]);
            let sizes = sizes_of(&case["sizes"]);
            reader_event(&input, &sizes, em);
            // the same header and chunking in front of a real document
            let mut bytes = input.clone();
            bytes.extend(DOC);
            // the document after the header is certainly valid iff what follows the header's newline
            // (or the whole input when there is no header) is JSON whitespace only
            let ws = |s: &[u8]| s.iter().all(|&b| b == b'\r' || b == b'\n');
            let has_header = input.first().map_or(false, |&b| b == b')' || b == b'\'');
            let valid = if has_header {
                match input.iter().position(|&b| b == b'\n') { Some(p) => ws(&input[p + 1..]), None => false }
            } else { ws(&input) };
            decode_event(&bytes, &sizes, valid, em);
        }
        "doc" => {
            let bytes = bytes_of(&case["bytes"]);
            let sizes = sizes_of(&case["sizes"]);
            reader_event(&bytes[..bytes.len().min(48)], &sizes, em);
            decode_event(&bytes, &sizes, case["valid"].as_bool().unwrap(), em);
        }
        _ => panic!("bad C12 case"),
    }
}

pub fn gen(rng: &mut Rng, size: usize) -> Value {
    // header
    let mut bytes: Vec<u8> = vec![];
    let mut header_ok = true;
    match rng.below(8) {
        0 | 1 => {}
        _ => {
            bytes.push(*rng.pick(&[b')', b']', b'}', b'\'']));
            for _ in 0..rng.below(10) { bytes.push(*rng.pick(&[b')', b']', b'}', b'\'', b'g', b' ', b'{', b'"', 0xC3, 0xA9, b'\t'])); }
            match rng.below(6) {
                0 => { bytes.push(b'\r'); header_ok = false; }                     // bare \r, followed by the document
                1 => { bytes.extend(b"\r\n"); }
                2 => { bytes.push(b'\r'); bytes.push(b'x'); bytes.push(b'\n'); header_ok = false; }
                _ => { bytes.push(b'\n'); }
            }
        }
    }
    // a LONG junk line whose terminator sits next to a multiple of 8192 (the size of the buffer the library reads through):
    // the '\r' of a "\r\n" as the last byte of a full read, the '\n' as the first byte of the next one
    let mut long_header = false;
    if rng.chance(1, 25) {
        bytes.clear();
        header_ok = true;
        long_header = true;
        let k = 1 + rng.below(2) as usize;
        let end = 8192 * k - 2 + rng.below(4) as usize;          // offset of the first terminator byte: 8190 .. 8193 (mod 8192)
        bytes.extend(b")]}'");
        while bytes.len() < end { bytes.push(*rng.pick(&[b'g', b' ', b'}', b'x'])); }
        match rng.below(3) { 0 => bytes.push(b'\n'), _ => bytes.extend(b"\r\n") }
    }
    // bytes that are special to SOME readers but not to this one: a byte order mark, blanks
    if bytes.is_empty() && rng.chance(1, 5) {
        bytes.extend(*rng.pick(&[&[0xEFu8, 0xBB, 0xBF][..], &b" "[..], &b"\n\n"[..], &[0xFEu8, 0xFF][..], &b"\t"[..]]));
        if rng.chance(1, 3) { bytes.extend(b")]}'\n"); }
        header_ok = false;   // no claim about validity for these
    }
    let hdr_len = bytes.len();
    // document
    let doc = if rng.chance(1, 3) { crate::c02::gen_index_doc(rng, size, 1) } else { { let h = rng.chance(1, 5); crate::c02::gen_flat_doc(rng, size, h) } };
    let mut d = doc.clone();
    d.as_object_mut().unwrap().remove("junk");
    let mut body = write_doc(&d);
    let mut valid = header_ok;
    if rng.chance(1, 8) {
        // serde-derived structs also deserialise from a positional JSON array: the detection struct has
        // 8 fields (version, file, sources, sourceRoot, sourcesContent, sections, names, mappings)
        body = match rng.below(3) {
            0 => br#"[3,null,["a.js"],null,null,null,["x"],"AAAAA"]"#.to_vec(),
            1 => br#"[3,"f.js",["a.js"],"r",[null],null,[],"AAAA"]"#.to_vec(),
            _ => br#"[null,null,null,null,null,[],null,null]"#.to_vec(),
        };
        valid = false;
    }
    if body.first() == Some(&b'{') && body.len() > 2 && rng.chance(1, 5) {
        // members a JSON front end may treat differently on different paths: values of UNKNOWN keys that are only
        // skipped (not valid UTF-8, a lone surrogate escape, a number out of range, nesting), a REPEATED known key
        let member: &[u8] = *rng.pick(&[&b"\"x_gen\":\"caf\xE9\","[..], &b"\"x_s\":\"\\ud800\","[..], &b"\"x_n\":1e999,"[..], &b"\"x_i\":123456789012345678901234567890,"[..],
                                        &b"\"x_o\":{\"mappings\":[{}],\"sections\":7},"[..], &b"\"x_deep\":[[[[[[[[]]]]]]]],"[..],
                                        &b"\"mappings\":\"AAAA\","[..], &b"\"version\":3,"[..], &b"\"sections\":[],"[..], &b"\"x_gen\":\"\xFF\xFE\",\"x_gen\":1,"[..]]);
        let at = if rng.chance(1, 2) { 1 } else { body.len() - 1 };
        let mut ins = member.to_vec();
        if at != 1 { ins.pop(); ins.insert(0, b','); }
        body.splice(at..at, ins);
        valid = false;
    }
    match rng.below(6) {
        0 => { let n = rng.below(body.len() as u64) as usize; body.truncate(n); valid = false; }     // truncated
        1 => { let k = rng.below(body.len() as u64) as usize; body[k] = *rng.pick(&[b'}', b'"', b'x', 0, b',']); valid = false; } // corrupted (may still parse)
        2 => { body.clear(); valid = false; }                                                     // header only
        _ => {}
    }
    if body.first() == Some(&b'{') && hdr_len == 0 && false { valid = false; }
    // trailing bytes after the document (blanks keep it valid, anything else does not), with a read that ends exactly at
    // the document's last byte, one before, or one after: what follows the closing brace arrives in a LATER read
    let mut trailer_at: Option<usize> = None;
    if rng.chance(1, 5) && !body.is_empty() {
        let t: &[u8] = *rng.pick(&[&b"{}"[..], &b" x"[..], &b"\n]"[..], &b"  "[..], &b"\n"[..], &b"\r\n\t "[..], &b"\n{\"version\":3}"[..], &b"0"[..], &b","[..]]);
        trailer_at = Some(hdr_len + body.len());
        if !t.iter().all(|b| b" \t\r\n".contains(b)) { valid = false; }
        body.extend(t);
    }
    bytes.extend(body);
    // chunk schedule: 1-byte reads, boundaries near the header end, random sizes
    let mut sizes: Vec<usize> = vec![];
    match rng.below(5) {
        0 => { sizes = vec![1; 40]; }
        1 => { if hdr_len > 0 { sizes.push(hdr_len); } }
        2 => { if hdr_len > 1 { sizes.push(hdr_len - 1); sizes.push(1); } }
        3 => { if hdr_len > 0 { let a = 1 + rng.below(hdr_len as u64) as usize; sizes.push(a); } }
        _ => {}
    }
    for _ in 0..rng.below(12) { sizes.push(1 + rng.below(30) as usize); }
    if let Some(end) = trailer_at {
        if !long_header && rng.chance(3, 4) {
            let cut = (end as i64 + rng.range(-1, 1)).max(1) as usize;
            sizes = match rng.below(3) { 0 => vec![cut], 1 if cut > 3 => vec![3, cut - 3], _ => { let a = 1 + rng.below(cut as u64) as usize; if a < cut { vec![a, cut - a] } else { vec![cut] } } };
        }
    }
    if long_header {
        // full reads, or a short first read and then full ones, or a read that ends exactly at / before / after the '\r'
        sizes = match rng.below(4) { 0 => vec![], 1 => vec![100], 2 => vec![hdr_len - 2], _ => vec![hdr_len - 1] };
    }
    // a corrupted document may or may not still be valid: let the judge only use `valid` as a sufficient condition
    let certainly_valid = valid && doc_is_untouched(&bytes[hdr_len..], &d);
    json!({"op": "doc", "bytes": bytes, "sizes": sizes, "valid": certainly_valid})
}
fn doc_is_untouched(body: &[u8], d: &Value) -> bool {
    body == &write_doc(d)[..] && crate::doc::decode_out(body)["k"] == "ok"
}
