//! C05 — untrusted bytes never crash the library: the whole life cycle under catch_unwind, a
//! watchdog (wall-clock limit per case) and an allocation counter; only outcome CLASSES are logged.
use crate::*;
use serde_json::{json, Map, Value};
use sourcemap::{DecodedMap, RewriteOptions, SourceMap, SourceView};
use std::sync::atomic::{AtomicUsize, Ordering};
use std::sync::mpsc;
use std::time::{Duration, Instant};

// ---------------------------------------------------------------- allocation counter
pub struct Counting;
pub static CUR: AtomicUsize = AtomicUsize::new(0);
pub static PEAK: AtomicUsize = AtomicUsize::new(0);
unsafe impl std::alloc::GlobalAlloc for Counting {
    unsafe fn alloc(&self, l: std::alloc::Layout) -> *mut u8 {
        let c = CUR.fetch_add(l.size(), Ordering::Relaxed) + l.size();
        PEAK.fetch_max(c, Ordering::Relaxed);
        std::alloc::System.alloc(l)
    }
    unsafe fn dealloc(&self, p: *mut u8, l: std::alloc::Layout) {
        CUR.fetch_sub(l.size(), Ordering::Relaxed);
        std::alloc::System.dealloc(p, l)
    }
}
fn alloc_guard<F: FnOnce() -> String>(input_len: usize, f: F) -> String {
    let base = CUR.load(Ordering::Relaxed);
    PEAK.store(base, Ordering::Relaxed);
    let r = f();
    let grown = PEAK.load(Ordering::Relaxed).saturating_sub(base);
    if grown > (256 << 20) + 4096 * input_len { "alloc".to_string() } else { r }
}

fn step<F: FnOnce() -> String + std::panic::UnwindSafe>(f: F) -> String {
    match std::panic::catch_unwind(f) { Ok(s) => s, Err(_) => "panic".to_string() }
}

fn kind_of(d: &DecodedMap) -> &'static str {
    match d { DecodedMap::Regular(_) => "regular", DecodedMap::Index(_) => "index", DecodedMap::Hermes(_) => "hermes" }
}
fn max_line(d: &DecodedMap) -> u64 {
    match d {
        DecodedMap::Regular(sm) => sm.tokens().map(|t| t.get_dst_line() as u64).max().unwrap_or(0),
        DecodedMap::Hermes(h) => h.tokens().map(|t| t.get_dst_line() as u64).max().unwrap_or(0),
        DecodedMap::Index(i) => i.sections().map(|s| s.get_sourcemap().map(max_line).unwrap_or(0)).max().unwrap_or(0),
    }
}

fn query_sm(sm: &SourceMap, sv: &SourceView) {
    let n = sm.get_token_count();
    let mut poss: Vec<(u32, u32)> = vec![(0, 0), (0, u32::MAX), (u32::MAX, 0), (u32::MAX, u32::MAX), (1, 5), (1, 15)];
    for (k, t) in sm.tokens().enumerate() {
        if k < 300 {
            let _ = format!("{} {:?} {:#}", t, t, t);
            let _ = (t.get_source(), t.get_name(), t.to_tuple(), t.get_source_view().map(|v| v.line_count()), t.get_raw_token(), t.has_source(), t.has_name());
            let (l, c) = t.get_dst();
            poss.extend([(l, c), (l, c.wrapping_add(1)), (l, c.wrapping_sub(1)), (l.wrapping_add(1), c), (l.wrapping_add(1), 0), (l, u32::MAX)]);
        }
    }
    for (l, c) in poss.iter().take(400) {
        if let Some(t) = sm.lookup_token(*l, *c) { let _ = (t.get_src(), t.get_src_col(), format!("{}", t)); }
        let _ = sm.get_original_function_name(*l, *c, "a", sv);
        let _ = sm.get_original_function_name(*l, *c, "é", sv);
    }
    for i in [0usize, 1, n as usize, n as usize + 5, usize::MAX] { let _ = sm.get_token(i).map(|t| format!("{}", t)); }
    let ns = sm.get_source_count();
    for i in [0u32, 1, ns, ns + 1, u32::MAX] {
        let _ = (sm.get_source(i), sm.get_name(i), sm.get_source_contents(i), sm.get_source_view(i).map(|v| (v.line_count(), v.get_line(0), v.get_line_slice(0, u32::MAX, 1), v.get_line_slice(0, 1, u32::MAX))));
    }
    let _ = (sm.sources().count(), sm.names().count(), sm.source_contents().count(), sm.ignore_list().count(), sm.get_file(), sm.get_source_root(), sm.get_debug_id(), sm.has_names(), sm.get_name_count());
    let mut it = sm.tokens();
    let _ = it.seek(0, 0);
    let _ = it.next();
    // a SESSION on one iterator: seeks in any order (behind the last token, before the first, exact, inexact, repeated),
    // with and without next() / size_hint() / nth() in between -- the cursor is state that survives every call
    let sess: Vec<(u32, u32)> = poss.iter().copied().take(24).chain([(u32::MAX, u32::MAX), (u32::MAX, u32::MAX), (0, 0), (u32::MAX, 0), (0, u32::MAX)]).collect();
    for pass in 0..3 {
        let mut it = sm.tokens();
        for (k, (l, c)) in sess.iter().enumerate() {
            let (l, c) = if pass == 1 { sess[sess.len() - 1 - k] } else { (*l, *c) };
            let _ = it.seek(l, c);
            if pass == 2 || k % 3 == 0 { let _ = (it.size_hint(), it.next().map(|t| t.get_dst())); }
            if k % 7 == 6 { let _ = it.nth(k % 4).is_some(); }
        }
        let _ = it.count();
    }
    let _ = format!("{:?}", sm).len();
}

fn query_all(d: &DecodedMap, sv: &SourceView, depth: usize) {
    // every object's text renderings (Debug of the map reaches its tokens' tables and its embedded source views)
    if depth == 0 {
        let _ = format!("{:?}", d).len();
        let _ = format!("{:#?}", d).len();
    }
    match d {
        DecodedMap::Regular(sm) => query_sm(sm, sv),
        DecodedMap::Hermes(h) => {
            query_sm(h, sv);
            for t in h.tokens().take(300) { let _ = h.get_scope_for_token(t); }
            for c in [0u32, 1, 7, 100, u32::MAX] { let _ = h.get_original_function_name(c); }
        }
        DecodedMap::Index(i) => {
            let _ = (i.get_file(), i.get_section_count(), i.is_for_ram_bundle(), i.x_facebook_offsets().map(|x| x.len()), i.x_metro_module_paths().map(|x| x.len()));
            for (l, c) in [(0u32, 0u32), (0, u32::MAX), (u32::MAX, 0), (u32::MAX, u32::MAX), (1, 1), (5, 2), (5, 1), (6, 0)] {
                let _ = i.lookup_token(l, c).map(|t| format!("{}", t));
                let _ = i.get_original_function_name(l, c, "a", sv);
            }
            for s in i.sections() {
                let _ = (s.get_offset(), s.get_url(), s.get_offset_line(), s.get_offset_col());
                if depth < 6 { if let Some(m) = s.get_sourcemap() { query_all(m, sv, depth + 1); } }
            }
            let _ = i.get_section(u32::MAX).is_none();
            let _ = format!("{:?}", i).len();
        }
    }
    for (l, c) in [(0u32, 0u32), (3, 3), (u32::MAX, u32::MAX)] {
        let _ = d.lookup_token(l, c).is_some();
        let _ = d.get_original_function_name(l, c, Some("a"), Some(sv));
        let _ = d.get_original_function_name(l, c, None, None);
    }
}

fn lifecycle(bytes: Vec<u8>, tx: mpsc::Sender<(String, String, String)>) {
    let n = bytes.len();
    let text = String::from_utf8_lossy(&bytes).to_string();
    let send = |op: &str, out: String, kind: &str| { let _ = tx.send((op.to_string(), out, kind.to_string())); };
    // detection / discovery entry points
    send("begin", "detect".into(), "");
    let b2 = bytes.clone();
    let t2 = text.clone();
    send("detect", alloc_guard(n, || step(move || {
        let _ = sourcemap::is_sourcemap_slice(&b2);
        let _ = sourcemap::is_sourcemap(&b2[..]);
        let _ = sourcemap::locate_sourcemap_reference_slice(&b2).map(|r| r.map(|r| (r.get_url().len(), r.resolve("http://x/y/z.js"), r.get_embedded_sourcemap().is_ok())));
        let _ = sourcemap::decode(&b2[..]).is_ok();
        let _ = sourcemap::decode_data_url(&t2).is_ok();
        let sv = SourceView::new(t2.clone().into());
        let _ = (sv.line_count(), sv.get_line(0), sv.get_line(u32::MAX), sv.get_line_slice(0, 0, u32::MAX), sv.get_line_slice(0, u32::MAX, u32::MAX), sv.lines().count(), sv.sourcemap_reference().is_ok());
        let _ = sourcemap::vlq::parse_vlq_segment(&t2.chars().take(64).collect::<String>()).is_ok();
        "ok".to_string()
    })), "");
    send("begin", "decode".into(), "");
    let b3 = bytes.clone();
    let decoded = std::panic::catch_unwind(move || sourcemap::decode_slice(&b3));
    let d = match decoded {
        Err(_) => { send("decode", "panic".into(), ""); return; }
        Ok(Err(_)) => { send("decode", "err".into(), ""); return; }
        Ok(Ok(d)) => d,
    };
    let kind = kind_of(&d);
    send("decode", "map".into(), kind);
    let sv = SourceView::new(text.clone().into());
    send("begin", "query".into(), kind);
    send("query", alloc_guard(n, || step(std::panic::AssertUnwindSafe(|| { query_all(&d, &sv, 0); "ok".to_string() }))), kind);
    // the same queries against a minified text rich in astral characters and short lines
    let sv2 = SourceView::new("x😍y😍z function a(){}😍😍 b\n😍\n\nfunction é(𝒳){return 𝒳}//😍😍😍😍😍😍😍😍\n".repeat(3).into());
    send("begin", "query".into(), kind);
    send("query", alloc_guard(n, || step(std::panic::AssertUnwindSafe(|| { query_all(&d, &sv2, 0); "ok".to_string() }))), kind);
    // serialise (guarded) and decode again
    send("begin", "serialize".into(), kind);
    let mut ser: Option<Vec<u8>> = None;
    if max_line(&d) < 100000 {
        let r = std::panic::catch_unwind(std::panic::AssertUnwindSafe(|| { let mut v = vec![]; d.to_writer(&mut v).map(|_| v) }));
        match r {
            Err(_) => send("serialize", "panic".into(), kind),
            Ok(Err(_)) => send("serialize", "err".into(), kind),
            Ok(Ok(v)) => { send("serialize", "ok".into(), kind); ser = Some(v); }
        }
    } else {
        send("serialize", "skipped".into(), kind);
    }
    if let Some(v) = ser {
        send("begin", "redecode".into(), kind);
        let r = std::panic::catch_unwind(move || sourcemap::decode_slice(&v).map(|d| kind_of(&d)));
        match r {
            Err(_) => send("redecode", "panic".into(), kind),
            Ok(Err(_)) => send("redecode", "err".into(), kind),
            Ok(Ok(k)) => send("redecode", "map".into(), k),
        }
    }
    // rewrite with every combination of the in-memory options
    let prefix_sets: [&[&str]; 4] = [&[], &["~"], &["/a", "r"], &["~", "http://", ""]];
    for with_names in [true, false] {
        for with_contents in [true, false] {
            for ps in prefix_sets.iter() {
                let ro = RewriteOptions { with_names, with_source_contents: with_contents, strip_prefixes: ps, ..Default::default() };
                match &d {
                    DecodedMap::Regular(sm) => {
                        send("begin", "rewrite".into(), kind);
                        let sm = sm.clone();
                        send("rewrite", step(std::panic::AssertUnwindSafe(|| match sm.rewrite(&ro) { Ok(r) => { let _ = r.get_token_count(); "ok".into() } Err(_) => "err".into() })), kind);
                    }
                    DecodedMap::Hermes(h) => {
                        send("begin", "rewrite".into(), kind);
                        let h = h.clone();
                        send("rewrite", step(std::panic::AssertUnwindSafe(|| match h.rewrite(&ro) { Ok(r) => { for t in r.tokens().take(50) { let _ = r.get_scope_for_token(t); } "ok".into() } Err(_) => "err".into() })), kind);
                    }
                    DecodedMap::Index(_) => {}
                }
            }
        }
    }
    if let DecodedMap::Index(i) = &d {
        send("begin", "flatten".into(), kind);
        send("flatten", alloc_guard(n, || step(std::panic::AssertUnwindSafe(|| match i.flatten() {
            Ok(f) => { let _ = f.lookup_token(u32::MAX, u32::MAX).is_some(); let _ = f.get_token_count(); "ok".into() }
            Err(_) => "err".into(),
        }))), kind);
        let i2 = i.clone();
        send("begin", "flatten".into(), kind);
        send("flatten", step(std::panic::AssertUnwindSafe(|| match i2.flatten_and_rewrite(&RewriteOptions::default()) { Ok(_) => "ok".into(), Err(_) => "err".into() })), kind);
    }
}

pub fn run_bytes(bytes: Vec<u8>, label: Value, em: &mut Emitter) {
    let (tx, rx) = mpsc::channel();
    let n = bytes.len();
    let h = std::thread::Builder::new().stack_size(64 << 20).spawn(move || lifecycle(bytes, tx)).expect("spawn");
    let deadline = Instant::now() + Duration::from_secs(60);   // wall clock: generous, the machine may be shared with other checks
    let mut current = ("decode".to_string(), String::new());
    loop {
        let left = deadline.saturating_duration_since(Instant::now());
        match rx.recv_timeout(left) {
            Ok((op, out, kind)) => {
                if op == "begin" { current = (out, kind); continue; }
                em.emit(&op, json!({"label": label, "len": n, "predict": label.get("predict").cloned().unwrap_or(json!("any"))}), json!({"k": "ok", "out": out, "kind": kind}));
            }
            Err(mpsc::RecvTimeoutError::Disconnected) => break,
            Err(mpsc::RecvTimeoutError::Timeout) => {
                em.emit(&current.0, json!({"label": label, "len": n, "predict": "any"}), json!({"k": "ok", "out": "timeout", "kind": current.1}));
                return; // the worker thread is abandoned
            }
        }
    }
    let _ = h.join();
}

// ---------------------------------------------------------------- fault documents (TLC cases)
fn base_regular() -> Value {
    json!({"version": 3, "file": "f.js", "sourceRoot": "r", "sources": ["a.js", "/abs/b.js"], "sourcesContent": ["function a(){}\nvar é=1;", null],
           "names": ["n0", "n1"], "mappings": "AAAAA,CACCC,C;AAEA", "rangeMappings": "B", "ignoreList": [1],
           "debug_id": "a0b1c2d3-e4f5-4a6b-8c7d-9e0f1a2b3c4d"})
}
fn base_hermes() -> Value {
    json!({"version": 3, "file": "h.js", "sources": ["a.js", "b.js"], "sourcesContent": ["x", "y"], "names": ["n0"], "mappings": "AAAAA,CACC,ECAA",
           "x_facebook_sources": [[{"names": ["<global>", "foo"], "mappings": "AAA,ECA"}], null]})
}
fn base_index() -> Value {
    let mut m2 = base_regular();
    m2.as_object_mut().unwrap().remove("sourceRoot");
    json!({"version": 3, "file": "bundle.js", "sections": [
        {"offset": {"line": 0, "column": 0}, "map": base_regular()},
        {"offset": {"line": 5, "column": 2}, "map": m2},
        {"offset": {"line": 9, "column": 0}, "map": base_hermes()}]})
}
fn big_vlq(which: &str) -> String {
    if which == "13ones" { return "+///////////f".to_string(); }
    if which == "13top" { return "ggggggggggggQ".to_string(); }
    let v: i64 = match which { "7digits" => (1 << 31) + 5, "13digits" => (1i64 << 62) - 1, "neg" => -77, _ => 1 << 32 };
    let syms = crate::c11::generate_own(&[v]);
    String::from_utf8(syms.iter().map(|&s| sym_to_byte(s)).collect()).unwrap()
}
fn numval(s: &str) -> Value {
    match s { "0" => json!(0), "2^31" => json!(2147483648u64), "2^32-1" => json!(4294967295u64), "2^32" => json!(4294967296u64), _ => json!(-1) }
}

fn apply_fault(doc: &mut Value, kind: &str, ft: &Value, dups: &mut Vec<String>) {
    let (f, key, a) = (ft["f"].as_str().unwrap(), ft["key"].as_str().unwrap(), ft["as"].as_str().unwrap());
    // faults on map-level keys of an index document go into its first section's map
    let into_section = kind == "index" && !["version", "sections", "file"].contains(&key) && !key.starts_with("offset")
        && doc.get("sections").and_then(|s| s.get(0)).and_then(|s| s.get("map")).map_or(false, |m| m.is_object());
    if !doc.is_object() { return; }
    if key.starts_with("offset") && !doc.get("sections").and_then(|s| s.get(1)).map_or(false, |s| s.get("offset").map_or(false, |o| o.is_object())) { return; }
    let target: &mut Value = if into_section { &mut doc["sections"][0]["map"] } else { doc };
    match f {
        "drop" => { target.as_object_mut().unwrap().remove(key); }
        "null" => { target[key] = Value::Null; }
        "type" => { target[key] = match a { "num" => json!(5), "str" => json!("str"), "obj" => json!({"a": 1}), _ => json!(true) }; }
        "dup" => { dups.push(key.to_string()); }
        "len" => {
            if let Some(arr) = target.get_mut(key).and_then(|v| v.as_array_mut()) {
                match a {
                    "short" => { arr.pop(); }
                    "empty" => arr.clear(),
                    _ => { if key == "ignoreList" { arr.extend([json!(0), json!(7), json!(4294967295u64)]); } else { let x = arr.first().cloned().unwrap_or(Value::Null); arr.extend([x.clone(), x.clone(), x]); } }
                }
            }
        }
        "num" => match key {
            "offset.line" => { doc["sections"][1]["offset"]["line"] = numval(a); }
            "offset.column" => { doc["sections"][1]["offset"]["column"] = numval(a); doc["sections"][0]["offset"]["column"] = numval(a); }
            "ignoreList" => { target["ignoreList"] = json!([numval(a)]); }
            _ => { target["version"] = numval(a); }
        },
        "vlq" => {
            let b = big_vlq(a);
            let z = "A".to_string();
            let fld = |k: &str| if k == key { b.clone() } else { z.clone() };
            // three tokens on line 0 (the faulty one in the middle, reachable by lookups to its right), one on line 1;
            // the first two are range tokens
            let col = if key == "dst_col" { b.clone() } else { "E".to_string() };
            target["mappings"] = json!(format!("AAAAA,{}{}{}{}{},GAAAA,C;{}", col, fld("src_id"), fld("src_line"), fld("src_col"), fld("name_id"), "CAAA"));
            if target.get("rangeMappings").is_some() { target["rangeMappings"] = json!("D"); }
        }
        "nest" => {
            let depth: usize = a.parse().unwrap();
            let mut inner = doc.clone();
            for _ in 0..depth { inner = json!({"version": 3, "sections": [{"offset": {"line": 1, "column": 1}, "map": inner}]}); }
            *doc = inner;
        }
        "hermes" => {
            target["x_facebook_sources"] = match a {
                "badvlq" => json!([[{"names": ["a"], "mappings": "A!A,,g"}], [{"names": [], "mappings": "gggggggggggggggA"}]]),
                "bigname" => json!([[{"names": ["a"], "mappings": "AwgBA,EggggggEA"}], null]),
                "nometa" => json!([[], []]),
                "extra" => json!([[{"names": ["a"], "mappings": "AAA"}]]),
                "sparse" => {
                    // three sources, only the last one referenced, a single function-map entry
                    target["sources"] = json!(["a.js", "b.js", "c.js"]);
                    target["sourcesContent"] = json!([null, null, "c"]);
                    target["mappings"] = json!("AEAA,CAAC");
                    json!([[{"names": ["a"], "mappings": "AAA"}]])
                }
                _ => json!([[{"names": ["a", "b"], "mappings": "AAA,DDD,DDD;DDD"}], null]),
            };
        }
        _ => {}
    }
}

fn fault_doc_bytes(case: &Value) -> Vec<u8> {
    let kind = case["kind"].as_str().unwrap();
    let mut doc = match kind { "regular" => base_regular(), "hermes" => base_hermes(), _ => base_index() };
    let mut dups = vec![];
    for ft in case["faults"].as_array().unwrap() { apply_fault(&mut doc, kind, ft, &mut dups); }
    let mut text = serde_json::to_string(&doc).unwrap();
    for k in dups {
        // repeat the key (with its own value) at the front of the top-level object
        let v = doc.get(&k).cloned().unwrap_or(Value::Null);
        text = format!("{{{}:{},{}", serde_json::to_string(&k).unwrap(), v, &text[1..]);
    }
    text.into_bytes()
}

pub fn run(case: &Value, em: &mut Emitter) {
    match case["op"].as_str().unwrap() {
        "faultdoc" => run_bytes(fault_doc_bytes(case), json!({"src": "faultdoc", "kind": case["kind"], "faults": case["faults"], "predict": case["predict"]}), em),
        "bytes" => run_bytes(case["bytes"].as_array().unwrap().iter().map(|b| b.as_u64().unwrap() as u8).collect(), json!({"src": case["src"]}), em),
        _ => panic!("bad C05 case"),
    }
}

// ---------------------------------------------------------------- drivers
fn fixtures() -> Vec<Vec<u8>> {
    let mut v = vec![];
    fn walk(p: &std::path::Path, v: &mut Vec<Vec<u8>>) {
        if let Ok(rd) = std::fs::read_dir(p) {
            let mut es: Vec<_> = rd.filter_map(|e| e.ok()).collect();
            es.sort_by_key(|e| e.path());
            for e in es {
                let p = e.path();
                if p.is_dir() { walk(&p, v); }
                else if let Ok(b) = std::fs::read(&p) { if b.len() < 300_000 && (p.extension().map_or(false, |x| x == "map" || x == "json")) { v.push(b); } }
            }
        }
    }
    walk(std::path::Path::new("/repo/tests/fixtures"), &mut v);
    v
}

fn mutate(rng: &mut Rng, b: &mut Vec<u8>) {
    if b.is_empty() { b.push(b'{'); return; }
    let n = 1 + rng.below(4);
    for _ in 0..n {
        let at = rng.below(b.len() as u64) as usize;
        match rng.below(9) {
            0 => { b[at] = rng.below(256) as u8; }
            1 => { b.remove(at); }
            2 => { b.insert(at, *rng.pick(&[b'"', b'{', b'}', b'[', b']', b',', b':', b'\\', b'0', b'-', b'9', b'A', b'g', b';', 0xff, 0])); }
            3 => { let n = rng.below(b.len() as u64 - at as u64 + 1) as usize; b.truncate(at + n.min(3)); }
            4 => { // splice an extreme number after a colon
                if let Some(p) = b[at..].iter().position(|&c| c == b':') { let ins = *rng.pick(&["4294967295", "4294967296", "2147483648", "-1", "1e999", "18446744073709551616", "null", "[]", "{}"]); let q = at + p + 1; b.splice(q..q, ins.bytes()); }
            }
            5 => { // duplicate a chunk
                let len = rng.below(40) as usize; let end = (at + len).min(b.len()); let chunk = b[at..end].to_vec(); b.splice(at..at, chunk);
            }
            6 => { // long VLQ run inside a mappings-looking area
                let run: Vec<u8> = (0..rng.below(16)).map(|_| *rng.pick(&[b'g', b'/', b'+', b'9', b'A', b'D'])).collect(); b.splice(at..at, run);
            }
            7 => { let c = b[at]; if c.is_ascii_digit() { b[at] = b'9'; b.insert(at, b'9'); } }
            _ => { let j = rng.below(b.len() as u64) as usize; b.swap(at, j); }
        }
        if b.is_empty() { break; }
    }
}

pub fn gen(rng: &mut Rng, size: usize) -> Value {
    thread_local! { static FIX: Vec<Vec<u8>> = fixtures(); }
    let bytes: Vec<u8> = match rng.below(10) {
        0 => (0..rng.below(200)).map(|_| rng.below(256) as u8).collect(),                       // arbitrary bytes
        1 => { // arbitrary JSON-ish bytes
            let alphabet = b"{}[]\":,0123456789-.eEntrufalsxmappingsourcesversionsectionsoffsetlinecolumn \n\\";
            (0..rng.below(300)).map(|_| *rng.pick(alphabet)).collect()
        }
        2 | 3 | 4 => FIX.with(|f| { let mut b = if f.is_empty() { b"{}".to_vec() } else { rng.pick(f).clone() }; mutate(rng, &mut b); b }),
        5 | 6 => { // structure-aware random documents (well-formed abstract docs), then mutated
            let d = if rng.chance(1, 3) { crate::c02::gen_index_doc(rng, size, 3) } else { let h = rng.chance(1, 3); crate::c02::gen_flat_doc(rng, size, h) };
            let mut b = crate::doc::write_doc(&d);
            if rng.chance(2, 3) { mutate(rng, &mut b); }
            b
        }
        7 if rng.chance(1, 3) => crate::doc::write_doc(&crate::doc::normalise_doc(&crate::c06::gen(rng, size)["doc"])),   // C06's damaged mappings in every document context
        7 if rng.chance(1, 2) => crate::doc::write_doc(&crate::c09::gen_hermes_doc(rng, size)),
        7 => { // well-formed documents of the map family: long lines, range flags, > 64 sources/names, every VLQ digit class
            let mut m = if rng.chance(1, 2) { crate::c04::gen_c07(rng, size) } else { { let wr = rng.chance(1, 2); crate::c01::gen_model(rng, size, wr) } };
            if m["op"] == "bigline" { m = crate::c01::gen_model(rng, size, true); }        // (C07's 2^16-segment lines are not documents)
            let d = if m.get("doc").is_some() { m["doc"].clone() } else { crate::maps::model_doc(&crate::maps::model_from_case(&m)) };
            crate::doc::write_doc(&crate::doc::normalise_doc(&d))
        }
        _ => { // fault documents with several random faults incl. extreme numbers
            let kind = *rng.pick(&["regular", "hermes", "index"]);
            let keys = ["version", "sources", "sourceRoot", "sourcesContent", "mappings", "ignoreList", "sections", "x_facebook_sources", "rangeMappings", "debug_id", "file", "names"];
            let mut faults = vec![];
            for _ in 0..1 + rng.below(3) {
                faults.push(match rng.below(7) {
                    0 => json!({"f": "drop", "key": *rng.pick(&keys), "as": ""}),
                    1 => json!({"f": "type", "key": *rng.pick(&keys), "as": *rng.pick(&["num", "str", "obj", "true"])}),
                    2 => json!({"f": "len", "key": *rng.pick(&["sourcesContent", "x_facebook_sources", "ignoreList", "names", "sources"]), "as": *rng.pick(&["short", "long", "empty"])}),
                    3 => json!({"f": "num", "key": *rng.pick(&["offset.line", "offset.column", "ignoreList", "version"]), "as": *rng.pick(&["0", "2^31", "2^32-1", "2^32", "-1"])}),
                    4 => json!({"f": "vlq", "key": *rng.pick(&["dst_col", "src_id", "src_line", "src_col", "name_id"]), "as": *rng.pick(&["7digits", "13digits", "neg", "2^32", "13ones", "13top"])}),
                    5 => json!({"f": "hermes", "key": "x_facebook_sources", "as": *rng.pick(&["badvlq", "bigname", "nometa", "extra", "neg", "sparse"])}),
                    _ => json!({"f": "nest", "key": "sections", "as": *rng.pick(&["1", "8", "200"])}),
                });
            }
            let case = json!({"kind": kind, "faults": faults});
            let _ = Map::<String, Value>::new();
            fault_doc_bytes(&case)
        }
    };
    json!({"op": "bytes", "bytes": bytes, "src": "drive"})
}
