//! Maps with full-range 32-bit positions (deltas up to +-(2^32-1)); fields are logged as bit-list
//! values so that the specification's exact arithmetic (Vlq!AddV, Mappings!DecodeV) judges them.
use crate::doc::*;
use crate::maps::parse_doc;
use crate::*;
use serde_json::{json, Value};
use sourcemap::{DecodedMap, RawToken, SourceMap};
use std::sync::Arc;

fn v(n: u32) -> Value { int_to_val(n as i64) }
fn vtok(t: &sourcemap::Token<'_>) -> Value {
    let r = t.get_raw_token();
    json!([r.dst_line, v(r.dst_col), idx(r.src_id), v(r.src_line), v(r.src_col), idx(r.name_id)])
}
fn val_u32(x: &Value) -> u32 { val_to_int(x) as u32 }

/// case: {"vtoks": [[dl, dcV, src, slV, scV, nm], ...], "nsrc", "nnm"}
pub fn run_encode_big(case: &Value, em: &mut Emitter) {
    let (nsrc, nnm) = (case["nsrc"].as_u64().unwrap(), case["nnm"].as_u64().unwrap());
    let raw: Vec<RawToken> = case["vtoks"].as_array().unwrap().iter().map(|t| RawToken {
        dst_line: t[0].as_u64().unwrap() as u32, dst_col: val_u32(&t[1]),
        src_id: if t[2].as_i64().unwrap() < 0 { !0 } else { t[2].as_u64().unwrap() as u32 },
        src_line: val_u32(&t[3]), src_col: val_u32(&t[4]),
        name_id: if t[5].as_i64().unwrap() < 0 { !0 } else { t[5].as_u64().unwrap() as u32 }, is_range: false }).collect();
    let sm = SourceMap::new(None, raw, (0..nnm).map(|i| Arc::from(format!("n{}", i))).collect(),
                            (0..nsrc).map(|i| Arc::from(format!("s{}", i))).collect(), None);
    let observed: Vec<Value> = sm.tokens().map(|t| vtok(&t)).collect();
    let out = guard(|| {
        let mut b = vec![];
        match sm.to_writer(&mut b) {
            Ok(()) => json!({"k": "ok", "mappings": parse_doc(&b)["mappings"][0]}),
            Err(e) => json!({"k": "err", "e": format!("{:?}", e)}),
        }
    });
    em.emit("encode_big", json!({"vtoks": observed, "nsrc": nsrc, "nnm": nnm}), out);
}

/// case: as above; the harness writes the mappings with its own writer and the crate decodes them
pub fn run_decode_big(case: &Value, em: &mut Emitter) {
    let (nsrc, nnm) = (case["nsrc"].as_u64().unwrap(), case["nnm"].as_u64().unwrap());
    let mut text: Vec<i64> = vec![];
    let (mut line, mut dc, mut src, mut sl, mut sc, mut nm) = (0i64, 0i64, 0i64, 0i64, 0i64, 0i64);
    let mut first = true;
    for t in case["vtoks"].as_array().unwrap() {
        let (l, c) = (t[0].as_i64().unwrap(), val_to_int(&t[1]));
        if l != line { while line < l { text.push(65); line += 1; } dc = 0; } else if !first { text.push(64); }
        first = false;
        let mut vals = vec![c - dc];
        dc = c;
        if t[2].as_i64().unwrap() >= 0 {
            let (s, a, b) = (t[2].as_i64().unwrap(), val_to_int(&t[3]), val_to_int(&t[4]));
            vals.extend([s - src, a - sl, b - sc]);
            src = s; sl = a; sc = b;
            if t[5].as_i64().unwrap() >= 0 { vals.push(t[5].as_i64().unwrap() - nm); nm = t[5].as_i64().unwrap(); }
        }
        text.extend(crate::c11::generate_own(&vals));
    }
    let doc = default_doc(&json!(text), nsrc, nnm);
    let bytes = write_doc(&normalise_doc(&doc));
    let out = guard(|| match sourcemap::decode_slice(&bytes) {
        Ok(DecodedMap::Regular(sm)) => json!({"k": "ok", "vtoks": sm.tokens().map(|t| vtok(&t)).collect::<Vec<_>>()}),
        Ok(_) => json!({"k": "wrongkind"}),
        Err(e) => json!({"k": "err", "e": format!("{:?}", e).chars().take(60).collect::<String>()}),
    });
    em.emit("decode_big", json!({"text": text, "nsrc": nsrc, "nnm": nnm}), out);
}

pub fn gen_big(rng: &mut Rng, size: usize) -> Value {
    let nsrc = 1 + rng.below(3);
    let nnm = rng.below(3);
    let n = 1 + rng.below((size * 4) as u64);
    let extremes: [u32; 10] = [0, 1, 2, 0x7fff_ffff, 0x8000_0000, 0x8000_0001, 0xffff_fffe, 0xffff_ffff, 0x4000_0000, 3_000_000_000];
    let mut toks = vec![];
    let mut line = 0u32;
    let mut col: u64 = 0;
    for k in 0..n {
        if k > 0 && rng.chance(1, 4) { line += 1 + rng.below(2) as u32; col = 0; }
        // strictly increasing generated columns with occasional huge jumps
        let step: u64 = match rng.below(5) { 0 => 1 << 31, 1 => (1u64 << 32) - 2, 2 => 3_000_000_000, _ => 1 + rng.below(50) };
        let nc = if k == 0 || col == 0 { if rng.chance(1, 3) { *rng.pick(&extremes) as u64 } else { rng.below(20) } } else { col + step };
        if nc > u32::MAX as u64 { line += 1; col = 0; continue; }
        col = nc.max(col + if col == 0 && toks.last().map_or(true, |t: &Value| t[0].as_u64().unwrap() as u32 != line) { 0 } else { 1 });
        if col > u32::MAX as u64 { continue; }
        let src = if rng.chance(1, 8) { -1 } else { rng.below(nsrc) as i64 };
        let (sl, sc) = if src >= 0 { (*rng.pick(&extremes), if rng.chance(1, 2) { *rng.pick(&extremes) } else { rng.next() as u32 }) } else { (0, 0) };
        let nm = if src >= 0 && nnm > 0 && rng.chance(1, 2) { rng.below(nnm) as i64 } else { -1 };
        toks.push(json!([line, v(col as u32), src, v(sl), v(sc), nm]));
    }
    // keep positions strictly increasing (drop accidental repeats)
    let mut seen = std::collections::BTreeSet::new();
    toks.retain(|t| seen.insert((t[0].as_u64().unwrap(), val_to_int(&t[1]))));
    toks.sort_by_key(|t| (t[0].as_u64().unwrap(), val_to_int(&t[1])));
    json!({"op": "bigmap", "vtoks": toks, "nsrc": nsrc, "nnm": nnm})
}
