//! Extension E05: every indexed iterator of the API is a cursor over the corresponding indexed getter
//! (tokens / sources / names / source contents of a map, sections of an index): one recorded session each
use crate::c01::realise;
use crate::c04::gen_steps;
use crate::doc::*;
use crate::*;
use serde_json::{json, Value};
use sourcemap::{DecodedMap, SourceMap, SourceMapIndex};

/// drive ONE iterator through the session.  The iterator is used as it is (adaptors such as `map` do not forward
/// `nth` / `size_hint` overrides to the iterator they wrap); items are projected only after they come out.
pub fn session<I: Iterator>(mut it: I, proj: impl Fn(I::Item) -> Value, cap: usize, steps: &[Value]) -> Value {
    let mut outs: Vec<Value> = vec![];
    let one = |t: Option<Value>| match t { Some(t) => json!([t]), None => json!([]) };
    for (i, st) in steps.iter().enumerate() {
        let n = st["n"].as_u64().unwrap() as usize;
        match st["op"].as_str().unwrap() {
            "next" => outs.push(one(it.next().map(&proj))),
            "nth" => outs.push(one(it.nth(n).map(&proj))),
            "hint" => { let (lo, hi) = it.size_hint(); outs.push(json!([lo, hi.map(|h| h as i64).unwrap_or(-1)])); }
            fin => {
                assert!(i + 1 == steps.len(), "final op in the middle");
                outs.push(match fin {
                    "rest" => json!(it.take(cap).map(&proj).collect::<Vec<_>>()),
                    "skip" => json!(it.skip(n).take(cap).map(&proj).collect::<Vec<_>>()),
                    "step_by" => json!(it.step_by(n).take(cap).map(&proj).collect::<Vec<_>>()),
                    "last" => one(it.take(cap).last().map(&proj)),
                    "count" => json!([it.take(cap).count()]),
                    _ => panic!("harness: unknown op"),
                });
                break;
            }
        }
    }
    json!({"k": "ok", "outs": outs})
}

fn map_sessions(sm: &SourceMap, how: &str, steps: &[Value], em: &mut Emitter) {
    let ntok = sm.get_token_count() as usize;
    let nsrc = sm.get_source_count() as usize;
    let nnm = sm.get_name_count() as usize;
    let items: Vec<Value> = (0..ntok).filter_map(|i| sm.get_token(i)).map(|t| tok_json(&t)).collect();
    em.emit("session", json!({"how": how, "kind": "tokens", "items": items, "steps": steps}),
            guard(|| session(sm.tokens(), |t| tok_json(&t), ntok + 2, steps)));
    let items: Vec<Value> = (0..nsrc).filter_map(|i| sm.get_source(i as u32)).map(|s| json!(s)).collect();
    em.emit("session", json!({"how": how, "kind": "sources", "items": items, "steps": steps}),
            guard(|| session(sm.sources(), |s| json!(s), nsrc + 2, steps)));
    let items: Vec<Value> = (0..nnm).filter_map(|i| sm.get_name(i as u32)).map(|s| json!(s)).collect();
    em.emit("session", json!({"how": how, "kind": "names", "items": items, "steps": steps}),
            guard(|| session(sm.names(), |s| json!(s), nnm + 2, steps)));
    let items: Vec<Value> = (0..nsrc).map(|i| opt_str(sm.get_source_contents(i as u32))).collect();
    em.emit("session", json!({"how": how, "kind": "contents", "items": items, "steps": steps}),
            guard(|| session(sm.source_contents(), opt_str, nsrc + 2, steps)));
}
fn index_sessions(smi: &SourceMapIndex, how: &str, steps: &[Value], em: &mut Emitter) {
    let n = smi.get_section_count() as usize;
    let items: Vec<Value> = (0..n).filter_map(|i| smi.get_section(i as u32)).map(|s| json!([s.get_offset_line(), s.get_offset_col()])).collect();
    em.emit("session", json!({"how": how, "kind": "sections", "items": items, "steps": steps}),
            guard(|| session(smi.sections(), |s| json!([s.get_offset_line(), s.get_offset_col()]), n + 2, steps)));
}

pub fn run(case: &Value, em: &mut Emitter) {
    let steps: Vec<Value> = case["steps"].as_array().cloned().unwrap_or_default();
    if case["op"] == "view_lines" {
        // the line iterator of a SourceView over what get_line(i) reports
        let view = sourcemap::SourceView::new(crate::c15::text_of(&case["text"]).into());
        let n = view.line_count();
        let items: Vec<Value> = (0..n as u32).filter_map(|i| view.get_line(i)).map(cps).collect();
        let fresh = sourcemap::SourceView::new(crate::c15::text_of(&case["text"]).into());   // not indexed yet
        em.emit("session", json!({"how": "view", "kind": "lines", "items": items, "steps": steps}),
                guard(|| session(fresh.lines(), cps, n + 2, &steps)));
        return;
    }
    for (how, _m, _doc, d) in realise(case) {
        match &d {
            DecodedMap::Regular(sm) => map_sessions(sm, &how, &steps, em),
            DecodedMap::Hermes(h) => map_sessions(h, &how, &steps, em),
            DecodedMap::Index(i) => {
                index_sessions(i, &how, &steps, em);
                if let Ok(f) = i.flatten() { map_sessions(&f, "flatten", &steps, em); }
            }
        }
    }
}

pub fn gen(rng: &mut Rng, size: usize) -> Value {
    if rng.chance(1, 5) {
        let n = rng.below((size * 20) as u64 + 1) as usize;
        let text = crate::c15::gen_text(rng, n);
        let nl = 1 + text.iter().filter(|&&c| c == 10 || c == 13).count();
        return json!({"op": "view_lines", "text": text, "steps": gen_steps(rng, nl.min(8))});
    }
    let mut m = if rng.chance(1, 4) { json!({"op": "map", "doc": crate::c02::gen_index_doc(rng, size, 1)}) } else { crate::c01::gen_model(rng, size, false) };
    let n = m.get("toks").and_then(|t| t.as_array()).map(|a| a.len()).unwrap_or(4).min(8);
    m["steps"] = json!(gen_steps(rng, n));
    m
}
