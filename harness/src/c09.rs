//! C09 — rewrite with in-memory options (regular and Hermes maps)
use crate::doc::*;
use crate::maps::*;
use crate::*;
use serde_json::{json, Value};
use sourcemap::{DecodedMap, RewriteOptions};

fn opts_of(o: &Value) -> (bool, bool, Vec<String>) {
    (o["names"].as_bool().unwrap(), o["contents"].as_bool().unwrap(),
     o["prefixes"].as_array().unwrap().iter().map(cps_to_string).collect())
}

pub fn run(case: &Value, em: &mut Emitter) {
    let (names, contents, prefixes) = opts_of(&case["opts"]);
    let prefs: Vec<&str> = prefixes.iter().map(|s| s.as_str()).collect();
    let ro = RewriteOptions { with_names: names, with_source_contents: contents, strip_prefixes: &prefs, ..Default::default() };
    if case["op"] == "hermes_rewrite" {
        let doc = normalise_doc(&case["doc"]);
        let h = match sourcemap::decode_slice(&write_doc(&doc)) { Ok(DecodedMap::Hermes(h)) => h, _ => return };
        let p1 = proj_map(&DecodedMap::Hermes(h.clone()));
        let out = guard(|| match h.rewrite(&ro) {
            Ok(r) => json!({"k": "ok", "p2": proj_map(&DecodedMap::Hermes(r))}),
            Err(e) => json!({"k": "err", "e": format!("{:?}", e)}),
        });
        em.emit("hermes_rewrite", json!({"p1": p1, "opts": case["opts"]}), out);
        return;
    }
    let mut c = case.clone();
    c["nsrc"] = json!(case["sources"].as_array().unwrap().len());
    c["nnm"] = json!(case["names"].as_array().unwrap().len());
    let m = model_from_case(&c);
    let hows: &[&str] = if case.get("how").is_some() { &["new"] } else { &["new", "doc"] };
    for how in hows {
        let sm = match build(&m, how) { Some(sm) => sm, None => continue };
        let p1 = proj_map(&DecodedMap::Regular(sm.clone()));
        let out = guard(|| match sm.rewrite(&ro) {
            Ok(r) => json!({"k": "ok", "p2": proj_map(&DecodedMap::Regular(r))}),
            Err(e) => json!({"k": "err", "e": format!("{:?}", e)}),
        });
        em.emit("rewrite", json!({"p1": p1, "opts": case["opts"], "how": how}), out);
    }
}

// ------------------------------------------------------------------ Hermes documents (also used by C14)
/// a function map: entries sorted by (line, column) as Metro emits them; returns {"names", "mappings"}
pub fn gen_fn_map(rng: &mut Rng, size: usize) -> Value {
    let nnames = 1 + rng.below(4);
    // names: distinct by construction, except that now and then one is the EMPTY string (present, not missing)
    let names: Vec<String> = (0..nnames).map(|i| if rng.chance(1, 8) { String::new() } else { format!("{}{}", *rng.pick(&["<global>", "fn", "Foo.bar", "λ", "anon"]), i) }).collect();
    let n = if rng.chance(1, 10) { 64 + rng.below(150) } else { rng.below((size * 3) as u64 + 1) };
    let mut text: Vec<i64> = vec![];
    let (mut line, mut col, mut name) = (1i64, 0i64, 0i64);
    let mut first_on_wire_line = true;
    for k in 0..n {
        // new wire line (column resets) only together with a line advance
        let newline = k > 0 && rng.chance(1, 3);
        let (nl, nc) = if newline { (line + 1 + rng.range(0, 2), rng.range(0, 30)) } else { (line, col + if k == 0 { rng.range(0, 3) } else { rng.range(1, 25) }) };
        let nn = if rng.chance(1, 8) { nnames as i64 + rng.range(0, 2) } else { rng.range(0, nnames as i64 - 1) }; // sometimes out of range
        if newline { text.push(65); first_on_wire_line = true; }
        if !first_on_wire_line { text.push(64); }
        let base_col = if first_on_wire_line { 0 } else { col };
        first_on_wire_line = false;
        // omit trailing fields when they are zero deltas
        let mut vals = vec![nc - base_col, nn - name, nl - line];
        if vals[2] == 0 && rng.chance(2, 3) { vals.pop(); if vals[1] == 0 && rng.chance(2, 3) { vals.pop(); } }
        // surplus fields after the third are ignored by the format's reader (Metro destructures three)
        else if rng.chance(1, 10) { for _ in 0..1 + rng.below(3) { vals.push(rng.range(-3, 40)); } }
        text.extend(crate::c11::generate_own(&vals));
        line = nl; col = nc; name = nn;
    }
    json!({"names": names, "mappings": text})
}

/// one x_facebook_sources entry: null, empty, a function map, several, or an UNPARSABLE one -- cut off after 0, 1, 2 or 3
/// complete values (what a parser remembers of a failed text must not reach the next text it reads), a foreign byte
pub fn gen_xfs_entry(rng: &mut Rng, size: usize) -> Value {
    match rng.below(10) {
        0 => json!([]),                                                    // null entry
        1 => json!([[]]),                                                  // empty metadata list
        2 => json!([[{"names": ["x"], "mappings": [2, 133, 0]}]]),          // unparsable ('!')
        3 => json!([[{"names": ["x"], "mappings": [0, 32]}]]),              // unparsable (cut off)
        4 => json!([[gen_fn_map(rng, size), gen_fn_map(rng, size)]]),                                   // a second entry (only the first is the function map)
        5 => json!([[{"names": ["x"], "mappings": [0, 0, 0, 64, 7, 133]}, gen_fn_map(rng, size)]]),      // unparsable first entry, parsable second
        6 => {
            // cut off after k complete values, in the first or in a later segment
            let k = rng.below(4) as usize;
            let mut t: Vec<i64> = if rng.chance(1, 2) { vec![0, 0, 0, 65] } else { vec![] };
            for _ in 0..k { t.push(rng.below(8) as i64 * 2); }
            t.push(32 + rng.below(32) as i64);
            json!([[{"names": ["x", "y"], "mappings": t}]])
        }
        _ => json!([[gen_fn_map(rng, size)]]),
    }
}

pub fn gen_hermes_doc(rng: &mut Rng, size: usize) -> Value {
    let nsrc = if rng.chance(1, 12) { 64 + rng.below(10) } else { 1 + rng.below(3) };
    let ntok = if nsrc > 10 { 100 + rng.below(100) } else { rng.below((size * 5) as u64 + 1) };
    let with_range = rng.chance(1, 3);
    let mut toks = vec![];
    let mut col = 0i64;
    for _ in 0..ntok {
        col += rng.range(1, 9);
        let src = if rng.chance(1, 10) { -1 } else { rng.below(nsrc) as i64 };
        toks.push(json!([0, col, src, if src >= 0 { rng.range(0, 6) } else { 0 }, if src >= 0 { rng.range(0, 40) } else { 0 }, -1,
                         if with_range && src >= 0 && rng.chance(1, 3) { 1 } else { 0 }]));
    }
    // a sources entry may be null (it reads as the empty name) and still have tokens and a function map
    // (at most one: two sources that read alike cannot both keep their function map through a rewrite, which merges
    // equal names -- the statement's "no duplicates" and "same enclosing function" would contradict each other)
    let null_at = if rng.chance(1, 4) { rng.below(nsrc) } else { nsrc };
    let srcs: Vec<Value> = (0..nsrc).map(|i| if i == null_at { json!([]) } else { json!([cps(&format!("s{}.js", i))]) }).collect();
    let xfs: Vec<Value> = (0..nsrc).map(|_| gen_xfs_entry(rng, size)).collect();
    let mut d = json!({"version": [3], "sources": [srcs], "names": [[]], "mappings": [own_mappings(&toks)], "xfs": [xfs]});
    if let Some(r) = own_range(&toks) { d["range"] = json!([r]); }
    d
}

pub fn gen(rng: &mut Rng, size: usize) -> Value {
    let prefixes: Vec<Value> = match rng.below(8) {
        0 => vec![],
        1 => vec![cps("/abs")],
        2 => vec![cps("/abs/")],
        3 => vec![cps("dir"), cps("/abs"), cps("http://h")],
        4 => vec![cps("/"), cps("abs"), cps("dir")],          // chained: the remainder begins with a later prefix
        5 => vec![cps("/abs/sub"), cps("/abs"), cps("/")],    // nested, most specific first
        6 => vec![cps("r/dir"), cps("r")],
        _ => vec![cps("r"), cps("r/dir/")],
    };
    let opts = json!({"names": rng.chance(1, 2), "contents": rng.chance(1, 2), "prefixes": prefixes});
    if rng.chance(1, 4) {
        // one function map per source, sources in any order
        let mut d = gen_hermes_doc(rng, size);
        let nsrc = d["sources"][0].as_array().unwrap().len();
        d["xfs"] = json!([(0..nsrc).map(|_| json!([[gen_fn_map(rng, size)]])).collect::<Vec<_>>()]);
        return json!({"op": "hermes_rewrite", "doc": d, "opts": opts});
    }
    let wr = rng.chance(1, 4);
    let mut m = crate::c01::gen_model(rng, size, wr);
    let mut opts = opts;
    if rng.chance(1, 3) {
        // prefixes cut out of the map's own source names (any code-point length, multi-byte characters included)
        let srcs: Vec<Value> = m["sources"].as_array().cloned().unwrap_or_default();
        if !srcs.is_empty() {
            let mut ps = vec![];
            for _ in 0..1 + rng.below(3) {
                let a = rng.pick(&srcs).as_array().unwrap().clone();
                let k = rng.below(a.len() as u64 + 1) as usize;
                // the one-character prefix "~" is the documented "common prefix of all sources" request: extension E03, not C09
                if k == 1 && a[0] == json!(126) { continue; }
                ps.push(Value::Array(a[..k].to_vec()));
            }
            opts["prefixes"] = json!(ps);
        }
    }
    m["op"] = json!("rewrite");
    m["opts"] = opts;
    m["how"] = json!("new");
    m.as_object_mut().unwrap().remove("ignore");
    m
}
