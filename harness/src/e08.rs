//! Extension E08: file RAM bundles ("unbundle") in a scratch directory
use crate::doc::*;
use crate::*;
use serde_json::{json, Value};
use sourcemap::ram_bundle::{is_unbundle_path, RamBundle};

fn bytes_of(v: &Value) -> Vec<u8> { v.as_array().unwrap().iter().map(|b| b.as_u64().unwrap() as u8).collect() }

pub fn run(case: &Value, em: &mut Emitter) {
    let d = &case["d"];
    let root = std::env::temp_dir().join(format!("sm_e08_{}", std::process::id())).join(format!("{}", case["id"].as_u64().unwrap_or(0)));
    let _ = std::fs::remove_dir_all(&root);
    let mods = root.join("js-modules");
    std::fs::create_dir_all(&mods).expect("scratch dir");
    let bundle_path = root.join("index.android.bundle");
    if let Some(b) = d["bundle"].as_array().unwrap().first() { std::fs::write(&bundle_path, bytes_of(b)).unwrap(); }
    if let Some(m) = d["marker"].as_array().unwrap().first() { std::fs::write(mods.join("UNBUNDLE"), bytes_of(m)).unwrap(); }
    for f in d["files"].as_array().unwrap() { std::fs::write(mods.join(cps_to_string(&f["name"])), bytes_of(&f["bytes"])).unwrap(); }
    if d["subdirs"].as_bool().unwrap() { std::fs::create_dir_all(mods.join("nested.js")).unwrap(); }
    let ids: Vec<u64> = case["ids"].as_array().unwrap().iter().map(|x| x.as_u64().unwrap()).collect();
    let out = guard(|| {
        let is = is_unbundle_path(&bundle_path);
        match RamBundle::parse_unbundle_from_path(&bundle_path) {
            Err(_) => json!({"k": "err", "is": is}),
            Ok(b) => {
                let gets: Vec<Value> = ids.iter().map(|&i| match b.get_module(i as usize) { Ok(Some(m)) => json!([m.data().to_vec()]), _ => json!([]) }).collect();
                let iter: Vec<Value> = b.iter_modules().take(200).filter_map(|m| m.ok()).map(|m| json!(m.id())).filter(|i| i.as_u64().unwrap() < 64).collect();
                json!({"k": "ok", "is": is, "count": b.module_count(), "startup": b.startup_code().map(|s| s.to_vec()).unwrap_or_default(), "gets": gets, "iter": iter})
            }
        }
    });
    let _ = std::fs::remove_dir_all(&root);
    em.emit("filebundle", json!({"d": d, "ids": ids}), out);
}

pub fn gen(rng: &mut Rng, _size: usize) -> Value {
    let magic = vec![229u8, 209, 11, 251];
    let marker: Value = match rng.below(8) {
        0 => json!([]),                                                       // no UNBUNDLE file
        1 => json!([[251, 11, 209, 229]]),                                    // magic in the other byte order
        2 => json!([[229, 209, 11]]),                                         // too short
        3 => json!([[229, 209, 11, 250, 0]]),                                 // one byte off
        4 => json!([magic.iter().copied().chain([1u8, 2, 3]).collect::<Vec<u8>>()]),   // magic followed by more bytes
        _ => json!([magic]),
    };
    let bundle: Value = if rng.chance(1, 10) { json!([]) } else { json!([(0..rng.below(12)).map(|_| rng.below(256)).collect::<Vec<u64>>()]) };
    let good: &[&str] = &["0.js", "1.js", "2.js", "7.js", "12.js", "03.js", "+5.js", "63.js", "000.js"];
    let odd: &[&str] = &["x.js", "1.txt", "-1.js", "1.JS", ".js", "1.js.map", "1", "1 .js", "١.js"];
    let mut files = vec![];
    let mut used: Vec<&str> = vec![];
    for _ in 0..rng.below(6) {
        let n = if rng.chance(1, 9) { *rng.pick(odd) } else { *rng.pick(good) };
        if used.contains(&n) { continue; }
        used.push(n);
        files.push(json!({"name": cps(n), "bytes": (0..rng.below(8)).map(|_| rng.below(256)).collect::<Vec<u64>>()}));
    }
    json!({"op": "filebundle", "id": rng.below(1 << 30), "ids": [0, 1, 2, 3, 5, 7, 12, 63, 64, 1000000],
           "d": {"bundle": bundle, "marker": marker, "files": files, "subdirs": rng.chance(1, 5)}})
}
