//! C15 — SourceView lines and UTF-16 slices, any access order (one fresh view per case)
use crate::doc::cps;
use crate::*;
use serde_json::{json, Value};
use sourcemap::SourceView;

pub const MAXU: i64 = 2147483647;
fn un(v: &Value) -> u32 {
    let x = v.as_i64().unwrap();
    if x == MAXU { u32::MAX } else { x as u32 }
}
pub fn text_of(v: &Value) -> String {
    v.as_array().unwrap().iter().map(|c| char::from_u32(c.as_u64().unwrap() as u32).unwrap()).collect()
}
fn optline(o: Option<&str>) -> Value {
    match o { Some(s) => json!([cps(s)]), None => json!([]) }
}

pub fn call_view(view: &SourceView, c: &Value) -> Value {
    guard(|| match c["op"].as_str().unwrap() {
        "get_line" => json!({"k": "ok", "ret": optline(view.get_line(un(&c["i"])))}),
        "line_count" => json!({"k": "ok", "ret": view.line_count()}),
        "lines" => json!({"k": "ok", "ret": view.lines().map(cps).collect::<Vec<_>>()}),
        "slice" => json!({"k": "ok", "ret": optline(view.get_line_slice(un(&c["line"]), un(&c["c"]), un(&c["n"])))}),
        _ => json!({"k": "badop"}),
    })
}

/// text of a case: explicit code points, or a repeated pattern {"unit": cps, "sep": cps, "n": count}
pub fn case_text(case: &Value) -> String {
    if let Some(segs) = case.get("segs").and_then(|s| s.as_array()) {
        let mut t = String::new();
        for g in segs {
            let ch = char::from_u32(g[0].as_u64().unwrap() as u32).unwrap();
            for _ in 0..g[1].as_u64().unwrap() { t.push(ch); }
            t.push_str(["\n", "\r", "\r\n"][g[2].as_u64().unwrap() as usize]);
        }
        return t;
    }
    match case.get("rep") {
        Some(r) if r.is_object() => { let (u, s) = (text_of(&r["unit"]), text_of(&r["sep"])); format!("{}{}", u, s).repeat(r["n"].as_u64().unwrap() as usize) }
        _ => text_of(&case["text"]),
    }
}
pub fn rep_arg(case: &Value) -> Value {
    match case.get("rep") { Some(r) if r.is_object() => json!([{"unit": r["unit"], "n": r["n"]}]), _ => json!([]) }
}

pub fn run(case: &Value, em: &mut Emitter) {
    let text = case_text(case);
    let mut view = SourceView::new(text.into());
    for c in case["calls"].as_array().unwrap() {
        let out = if c["op"] == "clone" {
            // the session goes on with a clone of the view (the original is dropped)
            let v2 = guard(|| { view = view.clone(); json!({"k": "ok", "ret": 0}) });
            v2
        } else { call_view(&view, c) };
        let g = |k: &str| c.get(k).cloned().unwrap_or(json!(0));
        em.emit(c["op"].as_str().unwrap(), json!({"text": case.get("text").cloned().unwrap_or(json!([])), "rep": rep_arg(case), "segs": case.get("segs").cloned().unwrap_or(json!([])), "i": g("i"), "line": g("line"), "c": g("c"), "n": g("n")}), out);
    }
}

pub fn gen_text(rng: &mut Rng, n: usize) -> Vec<u32> {
    (0..n).map(|_| match rng.below(12) {
        0 | 1 => 10,
        2 => 13,
        3 => *rng.pick(&[13u32, 11, 12, 0x85, 0x2028, 9]),      // CR, or a control / separator character that does NOT end a line
        4 => 0xE9,
        5 => 0x3B8F,
        6 => 0x1F60D,
        7 => 0x1D4B3,
        8 => 32,
        // code points at the boundaries of the encodings: last/first of each UTF-8 length, around the surrogate gap,
        // last BMP code point (one UTF-16 unit) and first astral one (two), the last code point of all
        9 if rng.chance(1, 3) => *rng.pick(&[0x7Fu32, 0x80, 0x7FF, 0x800, 0xD7FF, 0xE000, 0xFFFD, 0xFFFE, 0xFFFF, 0x10000, 0x10FFFF]),
        _ => 97 + rng.below(26) as u32,
    }).collect()
}

/// a large text as a repeated pattern (more than 65536 lines sometimes), a few requests far ahead of the cache
fn gen_rep(rng: &mut Rng) -> Value {
    let n = *rng.pick(&[1500i64, 3000, 66000, 70000, 131100]);
    let unit: Vec<u32> = (0..rng.below(3)).map(|_| *rng.pick(&[97u32, 0x1F60D, 59])).collect();
    let sep: Vec<u32> = rng.pick(&[vec![10u32], vec![13], vec![13, 10]]).clone();
    let mut calls = vec![];
    for _ in 0..1 + rng.below(3) {
        calls.push(match rng.below(4) {
            0 => json!({"op": "line_count"}),
            1 => json!({"op": "get_line", "i": n - 1 - rng.range(0, 2)}),
            2 => json!({"op": "get_line", "i": n + rng.range(0, 2)}),
            _ => json!({"op": "slice", "line": rng.range(0, n), "c": rng.range(0, 3), "n": rng.range(0, 3)}),
        });
    }
    json!({"op": "view", "rep": {"unit": unit, "sep": sep, "n": n}, "calls": calls})
}

/// a few LONG lines whose byte lengths sit next to powers of two (2^6 .. 2^13, +-2), each with its own terminator;
/// requests whose answers are short (counts, short lines, slices near the line ends), a long line now and then
fn gen_segs(rng: &mut Rng) -> Value {
    let nseg = 1 + rng.below(6) as usize;
    let mut segs: Vec<Value> = vec![];
    let mut prev_cr = false;
    for _ in 0..nseg {
        let (ch, w) = *rng.pick(&[(97u32, 1usize), (97, 1), (97, 1), (0xE9, 2), (0x1F60D, 4)]);
        let mut len = if rng.chance(1, 5) { rng.below(3) as usize } else { (boundary_len(rng, 6, 13) + rng.below(w as u64) as usize) / w };
        let sep = rng.below(3);
        if prev_cr && len == 0 { len = 1; }
        prev_cr = sep == 1;
        segs.push(json!([ch, len, sep]));
    }
    let mut calls = vec![];
    for _ in 0..1 + rng.below(5) {
        let line = rng.range(0, nseg as i64 + 1);
        let len = segs.get(line as usize).map(|g| g[1].as_i64().unwrap()).unwrap_or(0);
        calls.push(match rng.below(8) {
            0 | 1 => json!({"op": "line_count"}),
            2 => json!({"op": "clone"}),
            3 => json!({"op": "get_line", "i": line}),
            4 => json!({"op": "get_line", "i": nseg as i64 + rng.range(0, 1)}),
            _ => json!({"op": "slice", "line": line, "c": (len - rng.range(0, 3)).max(0) * if rng.chance(1, 2) { 1 } else { 2 }, "n": rng.range(0, 3)}),
        });
    }
    json!({"op": "view", "segs": segs, "calls": calls})
}

/// a WALK along one line: each slice starts where the previous one ended (or one unit to either side, or at the same
/// place again), spans of 0..3 units, over a line dense in astral characters -- the way a token list is cut out of a
/// minified line.  What a view remembers of one request must not reach the next.
fn gen_walk(rng: &mut Rng) -> Value {
    let nlines = 1 + rng.below(3) as i64;
    let mut text: Vec<u32> = vec![];
    for l in 0..nlines {
        if l > 0 { text.push(10); }
        for _ in 0..2 + rng.below(14) {
            text.push(match rng.below(5) { 0 | 1 => *rng.pick(&[0x1F600u32, 0x1D4B3, 0x10000, 0x10FFFF]), 2 => *rng.pick(&[0xE9u32, 0xFFFF, 0x3B8F]), _ => 97 + rng.below(26) as u32 });
        }
    }
    let mut calls = vec![];
    let mut line = rng.range(0, nlines - 1);
    let mut col = rng.range(0, 3);
    for _ in 0..2 + rng.below(14) {
        let n = rng.range(0, 3);
        calls.push(json!({"op": "slice", "line": line, "c": col, "n": n}));
        match rng.below(10) {
            0 => { line = rng.range(0, nlines - 1); col = rng.range(0, 4); }       // another line, or a fresh start
            1 => { col = (col - rng.range(1, 3)).max(0); }                          // back
            2 => { col = col + n + 1; }                                               // one unit skipped
            3 => { col = (col + n - 1).max(0); }                                      // one unit overlapping
            4 => {}                                                                   // the same start again
            5 => { calls.push(json!({"op": "get_line", "i": line})); col += n; }
            _ => { col += n; }
        }
    }
    json!({"op": "view", "text": text, "calls": calls})
}

pub fn gen(rng: &mut Rng, size: usize) -> Value {
    if rng.chance(1, 60) { return gen_rep(rng); }
    if rng.chance(1, 6) { return gen_segs(rng); }
    if rng.chance(1, 6) { return gen_walk(rng); }
    let large = rng.chance(1, 40);
    let n = if large { 700 + rng.below(900) as usize } else { rng.below((size * 30) as u64 + 1) as usize };
    let text = gen_text(rng, n);
    let nlines = 1 + text.iter().filter(|&&c| c == 10 || c == 13).count() as i64;
    let ncalls = if large { 1 + rng.below(4) } else { 1 + rng.below(if size > 4 { 50 } else { 12 }) };
    let calls: Vec<Value> = (0..ncalls).map(|_| match rng.below(10) {
        0 => json!({"op": "line_count"}),
        1 if rng.chance(1, 2) => json!({"op": "clone"}),
        1 => json!({"op": "lines"}),
        2 | 3 | 4 => json!({"op": "get_line", "i": if rng.chance(1, 10) { MAXU } else { rng.range(0, nlines + 1) }}),
        _ => json!({"op": "slice", "line": rng.range(0, nlines),
                    "c": if rng.chance(1, 15) { MAXU } else { rng.range(0, 12) },
                    "n": if rng.chance(1, 15) { MAXU } else { rng.range(0, 12) }}),
    }).collect();
    json!({"op": "view", "text": text, "calls": calls})
}
