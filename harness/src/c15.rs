//! C15 — SourceView lines and UTF-16 slices, any access order (one fresh view per case)
use crate::doc::cps;
use crate::*;
use serde_json::{json, Value};
use sourcemap::SourceView;

pub const MAXU: i64 = 2147483647;
fn un(v: &Value) -> u32 {
    let x = v.as_i64().unwrap();
    if x == MAXU { u32::MAX } else { x as u32 }
}
pub fn text_of(v: &Value) -> String {
    v.as_array().unwrap().iter().map(|c| char::from_u32(c.as_u64().unwrap() as u32).unwrap()).collect()
}
fn optline(o: Option<&str>) -> Value {
    match o { Some(s) => json!([cps(s)]), None => json!([]) }
}

pub fn call_view(view: &SourceView, c: &Value) -> Value {
    guard(|| match c["op"].as_str().unwrap() {
        "get_line" => json!({"k": "ok", "ret": optline(view.get_line(un(&c["i"])))}),
        "line_count" => json!({"k": "ok", "ret": view.line_count()}),
        "lines" => json!({"k": "ok", "ret": view.lines().map(cps).collect::<Vec<_>>()}),
        "slice" => json!({"k": "ok", "ret": optline(view.get_line_slice(un(&c["line"]), un(&c["c"]), un(&c["n"])))}),
        _ => json!({"k": "badop"}),
    })
}

pub fn run(case: &Value, em: &mut Emitter) {
    let text = text_of(&case["text"]);
    let view = SourceView::new(text.into());
    for c in case["calls"].as_array().unwrap() {
        let out = call_view(&view, c);
        let g = |k: &str| c.get(k).cloned().unwrap_or(json!(0));
        em.emit(c["op"].as_str().unwrap(), json!({"text": case["text"], "i": g("i"), "line": g("line"), "c": g("c"), "n": g("n")}), out);
    }
}

pub fn gen_text(rng: &mut Rng, n: usize) -> Vec<u32> {
    (0..n).map(|_| match rng.below(12) {
        0 | 1 => 10,
        2 | 3 => 13,
        4 => 0xE9,
        5 => 0x3B8F,
        6 => 0x1F60D,
        7 => 0x1D4B3,
        8 => 32,
        _ => 97 + rng.below(26) as u32,
    }).collect()
}

pub fn gen(rng: &mut Rng, size: usize) -> Value {
    let large = rng.chance(1, 40);
    let n = if large { 700 + rng.below(900) as usize } else { rng.below((size * 30) as u64 + 1) as usize };
    let text = gen_text(rng, n);
    let nlines = 1 + text.iter().filter(|&&c| c == 10 || c == 13).count() as i64;
    let ncalls = if large { 1 + rng.below(4) } else { 1 + rng.below(if size > 4 { 50 } else { 12 }) };
    let calls: Vec<Value> = (0..ncalls).map(|_| match rng.below(10) {
        0 => json!({"op": "line_count"}),
        1 => json!({"op": "lines"}),
        2 | 3 | 4 => json!({"op": "get_line", "i": if rng.chance(1, 10) { MAXU } else { rng.range(0, nlines + 1) }}),
        _ => json!({"op": "slice", "line": rng.range(0, nlines),
                    "c": if rng.chance(1, 15) { MAXU } else { rng.range(0, 12) },
                    "n": if rng.chance(1, 15) { MAXU } else { rng.range(0, 12) }}),
    }).collect();
    json!({"op": "view", "text": text, "calls": calls})
}
