//! C18 — reference discovery, data URLs, detection
use crate::c01::realise;
use crate::doc::*;
use crate::maps::to_bytes;
use crate::*;
use serde_json::{json, Value};
use sourcemap::{locate_sourcemap_reference, locate_sourcemap_reference_slice, DecodedMap, SourceMapRef, SourceView};

fn refv(r: sourcemap::Result<Option<SourceMapRef>>) -> Value {
    match r {
        Ok(None) => json!([]),
        Ok(Some(SourceMapRef::Ref(u))) => json!([{"legacy": false, "url": cps(&u)}]),
        Ok(Some(SourceMapRef::LegacyRef(u))) => json!([{"legacy": true, "url": cps(&u)}]),
        // an error is logged in the same SHAPE as an answer (a one-element list holding a record), so that the judge
        // compares it unequal instead of stumbling over a string where it expects a sequence
        Err(_) => json!([{"legacy": false, "url": [], "err": true}]),
    }
}
fn outcome(r: sourcemap::Result<DecodedMap>) -> Value {
    match r {
        Ok(d) => { let mut p = proj_map(&d); p["k"] = json!("ok"); p }
        Err(e) => json!({"k": "err", "e": format!("{:?}", e)}),
    }
}

/// views with a HISTORY: the question asked after the line index was built completely / partly, after slices, on a
/// clone of a used view, and twice in a row -- the answer is a function of the text alone
fn views_with_history(text: &str) -> Vec<Value> {
    let text = text.to_string();

                let mut vs = vec![];
                let v = SourceView::new(text.clone().into());
                let _ = v.line_count();
                vs.push(refv(v.sourcemap_reference()));
                vs.push(refv(v.sourcemap_reference()));
                let v = SourceView::new(text.clone().into());
                let _ = v.lines().count();
                vs.push(refv(v.clone().sourcemap_reference()));
                vs.push(refv(v.sourcemap_reference()));
                let v = SourceView::new(text.clone().into());
                let _ = (v.get_line(1), v.get_line_slice(0, 0, 3));
                vs.push(refv(v.sourcemap_reference()));
                let _ = v.get_line(u32::MAX);
                vs.push(refv(v.sourcemap_reference()));
                let v = SourceView::from_string(text.clone());
                vs.push(refv(v.sourcemap_reference()));
                vs
}

pub fn run(case: &Value, em: &mut Emitter) {
    if case["op"] == "locate" {
        let text = cps_to_string(&case["file"]);
        // the reader entry point is fed through a source that returns short reads (1 byte, then uneven chunks)
        let sizes: Vec<usize> = (0..12).map(|k| 1 + (text.len() * (k + 2) / 5) % 29).collect();
        let chunked = guard(|| refv(locate_sourcemap_reference(crate::c12::ChunkedReader::new(text.as_bytes().to_vec(), sizes.clone(), 8192))));
        let out = guard(|| json!({"k": "ok",
            "reader": refv(locate_sourcemap_reference(text.as_bytes())),
            "reader_chunked": chunked,
            "slice": refv(locate_sourcemap_reference_slice(text.as_bytes())),
            "view": refv(SourceView::new(text.clone().into()).sourcemap_reference()),
            "views": views_with_history(&text)}));
        em.emit("locate", json!({"file": case["file"]}), out);
        return;
    }
    for (how, _m, _doc, d) in realise(case) {
        let p1 = proj_map(&d);
        // every serialised map is recognised
        let det = guard(|| match to_bytes(&d) {
            Ok(b) => json!({"k": "ok", "detect_slice": sourcemap::is_sourcemap_slice(&b), "detect_reader": sourcemap::is_sourcemap(&b[..])}),
            Err(e) => json!({"k": "err", "e": e}),
        });
        em.emit("detect", json!({"how": how, "kind": p1["kind"]}), det);
        if let DecodedMap::Regular(sm) = &d {
            let legacy = case.get("legacy").and_then(|l| l.as_bool()).unwrap_or(false);
            let out = guard(|| {
                let url = match sm.to_data_url() { Ok(u) => u, Err(e) => return json!({"k": "err", "e": format!("{:?}", e)}) };
                let direct = outcome(sourcemap::decode_data_url(&url));
                let file = format!("var a=1;\n//{} sourceMappingURL={}\n", if legacy { "@" } else { "#" }, url);
                let (via, found_legacy) = match locate_sourcemap_reference_slice(file.as_bytes()) {
                    Ok(Some(r)) => {
                        let lg = matches!(r, SourceMapRef::LegacyRef(_));
                        (match r.get_embedded_sourcemap() { Ok(Some(d)) => outcome(Ok(d)), Ok(None) => json!({"k": "none"}), Err(e) => outcome(Err(e)) }, lg)
                    }
                    _ => (json!({"k": "notfound"}), false),
                };
                json!({"k": "ok", "direct": direct, "via_comment": via, "found_legacy": found_legacy})
            });
            em.emit("dataurl", json!({"how": how, "p1": p1, "legacy": legacy}), out);
        }
    }
}

pub fn gen(rng: &mut Rng, size: usize) -> Value {
    if rng.chance(1, 2) {
        // a generated file
        let n = 1 + rng.below(8);
        let mut f = String::new();
        if rng.chance(1, 25) {
            // the reference lies beyond the first 8 KiB / behind a very long line
            if rng.chance(1, 2) {
                // the next line starts k bytes before a multiple of 8192 (k in 0..24): a marker straddling a buffer refill
                let k = rng.below(25) as usize;
                let mult = 1usize;
                let mut filler = "var a = 1; // filler\n".repeat(8192 * mult / 21 - 2);
                while filler.len() + 1 < 8192 * mult - k { filler.push('y'); }
                filler.push('\n');
                f.push_str(&filler);
            } else {
                let filler = if rng.chance(1, 2) { "x".repeat(8100 + rng.below(200) as usize) } else { "var a = 1; // filler\n".repeat(400 + rng.below(50) as usize) };
                f.push_str(&filler);
                f.push_str(*rng.pick(&["\n", "\r\n", ""]));
            }
        }
        for k in 0..n {
            if rng.chance(1, 5) {
                // a near miss of the marker: a proper prefix of it (possibly followed by other text), or one character changed
                let marker: Vec<char> = (*rng.pick(&["//# sourceMappingURL=", "//@ sourceMappingURL="])).chars().collect();
                let mut near: String = if rng.chance(1, 2) {
                    marker[..2 + rng.below(marker.len() as u64 - 2) as usize].iter().collect()
                } else {
                    let mut v = marker.clone();
                    let at = rng.below(v.len() as u64) as usize;
                    v[at] = *rng.pick(&['x', ' ', '#', '@', '/', 'S', '=', '\t']);
                    v.iter().collect()
                };
                near.push_str(*rng.pick(&["", "", "sourceURL=app.js", "ts-check", " x.map", "=other.map"]));
                f.push_str(&near);
                f.push_str(*rng.pick(&["\n", "\r\n", "\r"]));
                continue;
            }
            if rng.chance(1, 6) {
                // an ordinary line of mixed-width characters, 0..40 characters long
                f.push_str(&uni_string(rng, 40));
                f.push_str(*rng.pick(&["\n", "\r\n", "\r"]));
                continue;
            }
            f.push_str(match rng.below(9) {
                0 => "//# sourceMappingURL=",
                1 => "//@ sourceMappingURL=",
                2 => " //# sourceMappingURL=x.map",
                3 => "f(); //# sourceMappingURL=y.map",
                4 => "//# sourcemappingurl=lower.map",
                5 => "//#sourceMappingURL=nospace.map",
                6 => "",
                _ => "var é = '𝒳'; // code",
            });
            if f.ends_with('=') {
                f.push_str(*rng.pick(&["", "a.js.map", "  spaced.map \t", "http://h/p?q=1#f", "\u{a0}nbsp.map\u{2028}", "data:application/json;base64,e30=",
                                        " my bundle.min.js.map ", "a\tb.map", "x \u{a0} y.map", "two  spaces.map"]));
            }
            if k + 1 < n || rng.chance(1, 2) { f.push_str(*rng.pick(&["\n", "\r\n", "\n", "\r"])); }
        }
        json!({"op": "locate", "file": cps(&f)})
    } else {
        let mut m = crate::c01::gen(rng, size);
        m["legacy"] = json!(rng.chance(1, 3));
        m
    }
}
