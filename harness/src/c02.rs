//! C02 / C06 — decoding documents written by the harness's own writer
use crate::doc::*;
use crate::*;
use serde_json::{json, Value};

pub fn run(case: &Value, em: &mut Emitter) {
    if case["op"] == "bigmap" {
        crate::big::run_decode_big(case, em);
        return;
    }
    let doc = if case.get("doc").is_some() {
        normalise_doc(&case["doc"])
    } else {
        normalise_doc(&default_doc(&case["text"], case["nsrc"].as_u64().unwrap(), case["nnm"].as_u64().unwrap()))
    };
    let bytes = write_doc(&doc);
    let out = decode_out(&bytes);
    em.emit("decode", json!({"doc": doc, "via": "slice"}), out);
    // the same document through the reader entry point, the stream cut into uneven chunks
    let sizes: Vec<usize> = (0..8).map(|k| 1 + (bytes.len() * (k + 3) / 7) % 37).collect();
    let out = guard(|| match sourcemap::decode(crate::c12::ChunkedReader::new(bytes.clone(), sizes.clone(), 4096)) {
        Ok(d) => { let mut p = proj_map(&d); p["k"] = json!("ok"); p }
        Err(e) => json!({"k": "err", "e": format!("{:?}", e).chars().take(80).collect::<String>()}),
    });
    em.emit("decode", json!({"doc": doc, "via": "reader"}), out);
    // TLC-enumerated texts also stand in a HERMES document whose (only) function map is cut off after 0..3 complete
    // values: the outcome for the mappings text must not depend on what the function-map parser met before
    if case.get("doc").is_none() {
        let text: Vec<i64> = case["text"].as_array().unwrap().iter().map(|x| x.as_i64().unwrap()).collect();
        let key = text.iter().enumerate().fold(text.len() as i64, |a, (i, x)| (a * 31 + (i as i64 + 1) * x) % 1009);
        if key % 3 == 0 && doc["sources"].as_array().map_or(false, |a| !a.is_empty()) {
            let mut d2 = doc.clone();
            let k = (key / 3 % 4) as usize;
            let mut t: Vec<i64> = (0..k).map(|j| (j as i64 * 2 + key) % 16).collect();
            t.push(32 + key % 32);
            let nsrc = doc["sources"][0].as_array().map_or(0, |a| a.len());
            d2["xfs"] = json!([(0..nsrc).map(|i| if i + 1 == nsrc { json!([[{"names": ["x"], "mappings": t}]]) } else { json!([]) }).collect::<Vec<_>>()]);
            let d2 = normalise_doc(&d2);
            let out = decode_out(&write_doc(&d2));
            em.emit("decode", json!({"doc": d2, "via": "slice"}), out);
        }
    }
}

// ---------------------------------------------------------------- random documents
pub struct Pools;
// (the pools contain the strings the crate itself uses as placeholders: "<invalid>", "<unknown>", "~")
pub const SRC_POOL: &[&str] = &["a.js", "", "/abs/x.js", "http://h/y.js", "https://h/z.js", "httpx.js", "dir/b.js", "a.js", "ünï.js", "http:", "/", "<unknown>", "~", "A.js"];
pub const ROOT_POOL: &[&str] = &["", "r", "r/", "/", "webpack:///", "http://cdn/x", "r//"];
pub const NAME_POOL: &[&str] = &["foo", "", "bar", "foo", "\"q\"", "naïve", "𝒳", "a\\b", "\n", "<invalid>", "<unknown>", "Foo", "~"];
/// JSON numbers in shortest form: 53/54-bit neighbours, 64-bit extremes, negative, fractions, a large exponent-free float
pub const NUM_LITS: &[&str] = &["9007199254740993", "9007199254740992", "18446744073709551615", "-9223372036854775808", "4294967296", "-1",
                                "1.0", "2.5", "0.1", "-0.5", "123456789.125"];
pub const UUIDS: &[&str] = &["00000000-0000-0000-0000-000000000000", "11111111-1111-1111-1111-111111111111", "a0b1c2d3-e4f5-4a6b-8c7d-9e0f1a2b3c4d", "a0b1c2d3-e4f5-4a6b-8c7d-9e0f1a2b3c4d-a", "11111111-1111-1111-1111-111111111111-ff"];

/// random well-formed abstract token list, sorted by construction (text order), returned as a
/// mappings text produced by the harness's own writer; may contain empty lines/segments and
/// (if `neg`) negative generated-column deltas.
pub fn gen_mappings(rng: &mut Rng, nseg: usize, nsrc: u64, nnm: u64, neg: bool) -> Vec<i64> {
    let mut text: Vec<i64> = vec![];
    let (mut dc, mut src, mut sl, mut sc, mut nm) = (0i64, 0i64, 0i64, 0i64, 0i64);
    let mut first_in_line = true;
    for _ in 0..nseg {
        // separators
        match rng.below(12) {
            0 => { text.push(65); dc = 0; first_in_line = true; }
            1 => { text.push(65); text.push(65); dc = 0; first_in_line = true; }
            2 => { text.push(64); }
            _ => {}
        }
        if !first_in_line { text.push(64); }
        first_in_line = false;
        let ndc = if neg && dc > 0 && rng.chance(1, 6) { rng.range(0, dc) } else { if rng.chance(1, 12) { (dc + vlq_class(rng, 6)).min((1 << 28) - 1) } else { dc + rng.range(0, 40) } };
        let mut vals = vec![ndc - dc];
        dc = ndc;
        let has_src = nsrc > 0 && rng.chance(5, 6);
        if has_src {
            let nsrc_i = rng.below(nsrc) as i64;
            let nsl = (sl + rng.range(-3, 6)).max(0);
            let nsc = if rng.chance(1, 15) { vlq_class(rng, 6) } else { (sc + rng.range(-20, 30)).max(0) };
            vals.extend([nsrc_i - src, nsl - sl, nsc - sc]);
            src = nsrc_i; sl = nsl; sc = nsc;
            if nnm > 0 && rng.chance(1, 2) {
                let n = rng.below(nnm) as i64;
                vals.push(n - nm);
                nm = n;
            }
        }
        text.extend(crate::c11::generate_own(&vals));
    }
    if rng.chance(1, 10) { text.push(65); }
    text
}

pub fn shuffle<T>(rng: &mut Rng, v: &mut Vec<T>) {
    for i in (1..v.len()).rev() {
        let j = rng.below(i as u64 + 1) as usize;
        v.swap(i, j);
    }
}

pub fn gen_flat_doc(rng: &mut Rng, size: usize, hermes: bool) -> Value {
    let nsrc = rng.below(4);
    let nnm = rng.below(4);
    let nseg = if rng.chance(1, 15) { 150 + rng.below(400) as usize } else { rng.below((size * 8) as u64 + 1) as usize };
    let neg = rng.chance(1, 4);
    let text = gen_mappings(rng, nseg, nsrc, nnm, neg);
    let sources: Vec<Value> = (0..nsrc).map(|_| if rng.chance(1, 8) { json!([]) } else { json!([if rng.chance(1, 3) { cps(&gen_src_name(rng)) } else { cps(*rng.pick(SRC_POOL)) }]) }).collect();
    let names: Vec<Value> = (0..nnm).map(|_| if rng.chance(1, 10) { json!({"raw": *rng.pick(&["null", "true", "{}", "[1]"])}) } else if rng.chance(1, 6) { json!({"n": rng.below(100000)}) } else if rng.chance(1, 8) { json!({"lit": *rng.pick(NUM_LITS)}) } else { json!({"s": rng.pick(NAME_POOL)}) }).collect();
    let mut d = json!({"version": [3], "sources": [sources], "names": [names], "mappings": [text]});
    if rng.chance(1, 2) { d["root"] = json!([if rng.chance(1, 3) { cps(&gen_root_name(rng)) } else { cps(*rng.pick(ROOT_POOL)) }]); }
    if rng.chance(1, 2) { d["file"] = json!([{"s": rng.pick(NAME_POOL)}]); }
    if rng.chance(1, 3) { d["debug_id"] = json!([rng.pick(UUIDS)]); }
    if rng.chance(1, 3) { d["debugId"] = json!([rng.pick(UUIDS)]); }
    if rng.chance(1, 3) {
        let n = if rng.chance(3, 4) { nsrc } else { rng.below(5) };
        d["contents"] = json!([(0..n).map(|_| if rng.chance(1, 3) { json!([]) } else if rng.chance(1, 6) { json!([gen_content(rng)]) } else { json!([rng.pick(NAME_POOL)]) }).collect::<Vec<_>>()]);
    }
    if rng.chance(1, 4) && nsrc > 0 {
        d["ignore"] = json!([(0..rng.below(3)).map(|_| if rng.chance(1, 5) { nsrc + rng.below(3) } else { rng.below(nsrc) }).collect::<Vec<_>>()]);
    }
    if rng.chance(1, 5) {
        // rangeMappings unrelated to the segment counts: up to 14 digits (84 bits) per line, empty lines, extra lines
        let mut r: Vec<i64> = vec![];
        for k in 0..rng.below(6) {
            if k > 0 { r.push(65); }
            for _ in 0..(if rng.chance(1, 3) { rng.below(15) } else { rng.below(3) }) { r.push(rng.below(64) as i64); }
        }
        d["range"] = json!([r]);
    }
    if hermes {
        // function maps of every kind, unparsable ones included (they disable scopes, nothing else)
        d["xfs"] = json!([(0..nsrc).map(|_| if rng.chance(1, 2) { json!([]) } else { crate::c09::gen_xfs_entry(rng, size.min(3)) }).collect::<Vec<_>>()]);
    }
    if rng.chance(1, 5) {
        let hdr: &[u8] = *rng.pick(&[&b")]}'\n"[..], &b")]}garbage\r\n"[..], &b"}\n"[..], &b"'x\n"[..]]);
        d["junk"] = json!([hdr.iter().map(|b| json!(*b)).collect::<Vec<_>>()]);
        if rng.chance(1, 8) {
            // a long junk line ending next to a multiple of 8192 (the library's read buffer)
            let end = 8192 - 2 + rng.below(4) as usize;
            let mut h: Vec<u8> = b")]}'".to_vec();
            while h.len() < end { h.push(b'g'); }
            if rng.chance(1, 3) { h.push(b'\n'); } else { h.extend(b"\r\n"); }
            d["junk"] = json!([h.iter().map(|b| json!(*b)).collect::<Vec<_>>()]);
        }
    }
    let mut order: Vec<&str> = DEFAULT_ORDER.to_vec();
    if rng.chance(1, 2) { shuffle(rng, &mut order); }
    if rng.chance(1, 6) {
        // unknown keys are skipped whatever (well-formed) value they hold, wherever they stand
        let extras: &[(&str, &str)] = &[("x_a", r#"{"mappings":"!!","sections":[1],"version":9}"#), ("x_b", r#"[null,true,1.5e3,"s\u00e9\ud83d\ude00",{"a":[]}]"#),
                                        ("x_c", "\"caf\u{e9} \u{1F600}\""), ("zzz", "null"), ("sourcesRoot", "\"near miss\""), ("Mappings", "\"AAAA\""), ("x_big", "18446744073709551615")];
        let mut ex = serde_json::Map::new();
        for _ in 0..1 + rng.below(3) {
            let (k, v) = *rng.pick(extras);
            if !order.contains(&k) { let at = rng.below(order.len() as u64 + 1) as usize; order.insert(at, k); }
            ex.insert(k.to_string(), json!(v));
        }
        d["extra"] = Value::Object(ex);
    }
    if order != DEFAULT_ORDER { d["order"] = json!(order); }
    d
}

pub fn gen_index_doc(rng: &mut Rng, size: usize, depth: usize) -> Value {
    // (an index map may have NO sections at all: the key alone decides the kind -- empty containers are a class)
    let n = if rng.chance(1, 8) { 0 } else { 1 + rng.below(3) };
    let mut line = 0u64;
    let mut secs = vec![];
    let mut same: Option<(u64, u64)> = None;
    for _ in 0..n {
        let (l, col) = match same.take() { Some(o) => o, None => { line += rng.below(5); (line, rng.below(20)) } };
        let mut s = json!({"off": [l, col]});
        match rng.below(6) {
            0 => { s["url"] = json!(["http://x/sub.map"]); }
            1 if depth > 0 => { s["map"] = json!([gen_index_doc(rng, size, depth - 1)]); }
            2 => { s["map"] = json!([gen_flat_doc(rng, size.min(3), true)]); }
            _ => { s["map"] = json!([gen_flat_doc(rng, size.min(3), false)]); }
        }
        if let Some(m) = s.get_mut("map") { m[0].as_object_mut().unwrap().remove("junk"); }
        // a section may carry a url NEXT TO its embedded map
        if s.get("map").is_some() && rng.chance(1, 6) { s["url"] = json!(["http://x/also.map"]); }
        secs.push(s);
        // now and then the next section starts at the very same offset (file order is kept among equals)
        if rng.chance(1, 10) { same = Some((l, col)); continue; }
        line += 1 + rng.below(30);
    }
    let mut d = json!({"version": [3], "sections": [secs]});
    if rng.chance(1, 2) { d["file"] = json!([{"s": "bundle.js"}]); }
    // the marker key of ANOTHER document kind next to "sections" (sections decide: it stays an index map)
    if rng.chance(1, 8) { d["xfs"] = json!([[[]]]); }
    d
}

pub fn gen(rng: &mut Rng, size: usize) -> Value {
    if rng.chance(1, 6) { return crate::big::gen_big(rng, size); }
    // documents that must be REFUSED are mixed in: what a decoder remembers of a failure must not leak into the next call
    if rng.chance(1, 8) { return crate::c06::gen(rng, size); }
    match rng.below(10) {
        0 | 1 => json!({"doc": gen_index_doc(rng, size, 2)}),
        2 => json!({"doc": gen_flat_doc(rng, size, true)}),
        _ => json!({"doc": gen_flat_doc(rng, size, false)}),
    }
}
