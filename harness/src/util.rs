use serde_json::{json, Value};
use std::io::Write;
use std::panic::{catch_unwind, AssertUnwindSafe};

/// xorshift64* — deterministic, dependency-free
pub struct Rng(u64);
impl Rng {
    pub fn new(seed: u64) -> Rng {
        // splitmix64 finaliser, so that neighbouring seeds give unrelated streams
        let mut z = seed.wrapping_add(0x9E37_79B9_7F4A_7C15);
        z = (z ^ (z >> 30)).wrapping_mul(0xBF58_476D_1CE4_E5B9);
        z = (z ^ (z >> 27)).wrapping_mul(0x94D0_49BB_1331_11EB);
        z ^= z >> 31;
        let mut r = Rng(if z == 0 { 1 } else { z });
        for _ in 0..8 {
            r.next();
        }
        r
    }
    pub fn next(&mut self) -> u64 {
        let mut x = self.0;
        x ^= x >> 12;
        x ^= x << 25;
        x ^= x >> 27;
        self.0 = x;
        x.wrapping_mul(0x2545_F491_4F6C_DD1D)
    }
    /// uniform in 0..n (n > 0)
    pub fn below(&mut self, n: u64) -> u64 {
        self.next() % n
    }
    pub fn range(&mut self, lo: i64, hi: i64) -> i64 {
        lo + (self.below((hi - lo + 1) as u64) as i64)
    }
    pub fn chance(&mut self, num: u64, den: u64) -> bool {
        self.below(den) < num
    }
    pub fn pick<'a, T>(&mut self, xs: &'a [T]) -> &'a T {
        &xs[self.below(xs.len() as u64) as usize]
    }
}

// ------------------------------------------------------------------ input classes shared by drivers
/// a non-negative number whose VLQ text has a uniformly chosen number of digits, 1..=maxdigits
/// (0..15, 16..511, 512..16383, 16384..524287, ..., below 2^(5*maxdigits-1))
pub fn vlq_class(rng: &mut Rng, maxdigits: u64) -> i64 {
    let d = 1 + rng.below(maxdigits) as i64;
    let lo = if d == 1 { 0 } else { 1i64 << (5 * (d - 1) - 1) };
    let hi = (1i64 << (5 * d - 1)) - 1;
    if rng.chance(1, 4) { *rng.pick(&[lo, hi]) } else { rng.range(lo, hi) }
}
/// a length next to a power of two (2^k - 2 ..= 2^k + 2, k in lo..=hi): buffer, block and word sizes
pub fn boundary_len(rng: &mut Rng, lo: u32, hi: u32) -> usize {
    let k = lo + rng.below((hi - lo + 1) as u64) as u32;
    ((1i64 << k) + rng.range(-2, 2)).max(0) as usize
}
const UNI: &[char] = &['a', 'b', 'c', '.', '/', 'j', 's', ':', ' ', '-', 'é', 'ü', 'ß', '€', '中', '‐', '😀', '𝒳'];
/// 0..=maxlen characters of mixed UTF-8 width (1 to 4 bytes), so that every byte offset is sometimes
/// inside a character
pub fn uni_string(rng: &mut Rng, maxlen: u64) -> String {
    (0..rng.below(maxlen + 1)).map(|_| *rng.pick(UNI)).collect()
}
/// an embedded source text: a few lines of mixed-width characters, its byte length next to a power of two
/// (2^5 .. 2^9), so that block / truncation boundaries fall inside characters as often as between them
pub fn gen_content(rng: &mut Rng) -> String {
    let target = boundary_len(rng, 5, 9);
    let mut t = String::new();
    while t.len() < target {
        t.push(*rng.pick(UNI));
        if rng.chance(1, 30) { t.push('\n'); }
    }
    t
}
const SRC_PREFIX: &[&str] = &["", "", "", "", "/", "http:", "https:", "HTTP:", "Https:", "http", "ht", "webpack:///", "~/", "./", "../", "//"];
/// a source name: an optional scheme-like or path prefix followed by mixed-width characters
pub fn gen_src_name(rng: &mut Rng) -> String {
    format!("{}{}", rng.pick(SRC_PREFIX), uni_string(rng, 9))
}
/// a source root: like a source name, with zero to two trailing slashes
pub fn gen_root_name(rng: &mut Rng) -> String {
    format!("{}{}{}", rng.pick(SRC_PREFIX), uni_string(rng, 7), rng.pick(&["", "", "/", "//"]))
}

pub struct Emitter {
    w: Box<dyn Write>,
    src: &'static str,
    i: u64,
    case: u64,
    first: bool,
}

impl Emitter {
    pub fn new<W: Write + 'static>(w: W, src: &'static str) -> Emitter {
        Emitter { w: Box::new(w), src, i: 0, case: 0, first: true }
    }
    pub fn begin_case(&mut self, n: u64, _case: &Value) {
        self.case = n;
        self.first = true;
    }
    /// one event per public call: operation, arguments (in the spec's encodings), outcome
    pub fn emit(&mut self, op: &str, args: Value, out: Value) {
        self.i += 1;
        let ev = json!({"i": self.i, "case": self.case, "first": self.first, "src": self.src,
                        "op": op, "args": args, "out": out});
        self.first = false;
        writeln!(self.w, "{}", ev).expect("write trace");
    }
    pub fn finish(&mut self) {
        self.w.flush().expect("flush");
    }
}

pub fn silence_panics() {
    if std::env::var("HARNESS_VERBOSE").is_ok() {
        return;
    }
    std::panic::set_hook(Box::new(|_| {}));
}

/// Run `f`; a panic of the code under test is data, not a harness failure.
pub fn guard<F: FnOnce() -> Value>(f: F) -> Value {
    match catch_unwind(AssertUnwindSafe(f)) {
        Ok(v) => v,
        Err(e) => {
            let msg = if let Some(s) = e.downcast_ref::<&str>() {
                s.to_string()
            } else if let Some(s) = e.downcast_ref::<String>() {
                s.clone()
            } else {
                "?".to_string()
            };
            json!({"k": "panic", "msg": msg})
        }
    }
}

pub const B64: &[u8; 64] = b"ABCDEFGHIJKLMNOPQRSTUVWXYZabcdefghijklmnopqrstuvwxyz0123456789+/";

/// spec symbol -> byte: 0..63 digit, 64 ',', 65 ';', 100+b foreign byte b
pub fn sym_to_byte(s: i64) -> u8 {
    match s {
        0..=63 => B64[s as usize],
        64 => b',',
        65 => b';',
        _ => (s - 100) as u8,
    }
}
/// byte -> spec symbol (independent of the crate's table)
pub fn byte_to_sym(b: u8) -> i64 {
    match b {
        b'A'..=b'Z' => (b - b'A') as i64,
        b'a'..=b'z' => (b - b'a') as i64 + 26,
        b'0'..=b'9' => (b - b'0') as i64 + 52,
        b'+' => 62,
        b'/' => 63,
        b',' => 64,
        b';' => 65,
        _ => 100 + b as i64,
    }
}
pub fn syms_to_bytes(v: &Value) -> Vec<u8> {
    v.as_array().expect("symbol array").iter().map(|x| sym_to_byte(x.as_i64().unwrap())).collect()
}
pub fn bytes_to_syms(b: &[u8]) -> Value {
    Value::Array(b.iter().map(|&x| json!(byte_to_sym(x))).collect())
}

/// i64 -> spec value [neg, bits] (magnitude bits LSB first, no trailing zeros)
pub fn int_to_val(n: i64) -> Value {
    let neg = n < 0;
    let mut m = n.unsigned_abs();
    let mut bits = vec![];
    while m != 0 {
        bits.push(json!(m & 1));
        m >>= 1;
    }
    json!({"neg": neg, "bits": bits})
}
pub fn val_to_int(v: &Value) -> i64 {
    let mut m: u64 = 0;
    for (k, b) in v["bits"].as_array().unwrap().iter().enumerate() {
        m |= (b.as_u64().unwrap()) << k;
    }
    if v["neg"].as_bool().unwrap() { -(m as i64) } else { m as i64 }
}

pub fn opt_str(o: Option<&str>) -> Value {
    match o {
        Some(s) => json!([s]),
        None => json!([]),
    }
}
