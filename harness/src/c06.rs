//! C06 — malformed mappings: random well-formed texts damaged by one or two faults
use crate::c02::gen_mappings;
use crate::doc::*;
use crate::*;
use serde_json::{json, Value};

pub fn run(case: &Value, em: &mut Emitter) {
    crate::c02::run(case, em)
}

fn fault(rng: &mut Rng, t: &mut Vec<i64>) {
    let digits: Vec<usize> = (0..t.len()).filter(|&i| t[i] < 64).collect();
    let lastdigits: Vec<usize> = (0..t.len()).filter(|&i| t[i] < 32).collect();
    let at = rng.below(t.len() as u64 + 1) as usize;
    match rng.below(12) {
        0 => t.insert(at, 0),                                              // field added
        1 if !digits.is_empty() => { let i = *rng.pick(&digits); t.remove(i); } // digit dropped
        2 if !lastdigits.is_empty() => { let i = *rng.pick(&lastdigits); t[i] += 32; } // continuation bit
        3 if !digits.is_empty() => { let i = *rng.pick(&digits); for _ in 0..13 { t.insert(i, 32 + rng.below(32) as i64); } } // 14+ digits
        4 => { let b = *rng.pick(&[b'!', b' ', b'=', b'-', b'_', b'.', b'\t', b'@', b'[', b'`', b'{', 0x7f]); t.insert(at, 100 + b as i64); }
        5 => { // a multi-byte UTF-8 character (bytes >= 0x80)
            let ch = *rng.pick(&['é', 'ß', '€', '𝒳']);
            let mut buf = [0u8; 4];
            for (k, b) in ch.encode_utf8(&mut buf).bytes().enumerate() { t.insert(at + k, 100 + b as i64); }
        }
        6 if !lastdigits.is_empty() => { // index pushed far out of range (either way)
            let i = *rng.pick(&lastdigits);
            t.remove(i);
            let v: i64 = *rng.pick(&[1i64 << 32, -(1i64 << 32), 1 << 31, -(1 << 31), (1 << 32) + 1, 1 << 40, 5, -5, 70000, -70000, 1, 2, 3, 4, -1, -2, -3]);
            for (k, d) in crate::c11::generate_own(&[v]).into_iter().enumerate() { t.insert(i + k, d); }
        }
        7 if !lastdigits.is_empty() => { let i = *rng.pick(&lastdigits); t[i] = (t[i] + 2) % 32; } // small delta change
        8 => { // a segment with hundreds of fields (counts around multiples of 256)
            let k = *rng.pick(&[250usize, 251, 252, 255, 256, 257, 259, 260, 261, 511, 512, 513, 516, 517]);
            for _ in 0..k { t.insert(at, 0); }
        }
        9 => { // a character >= U+0100 whose low byte is a base64 alphabet byte (U+0141 -> 'A', U+012B -> '+', ...)
            let low = *rng.pick(&[b'A', b'B', b'+', b'/', b'a', b'g', b'0', b'9']);
            let ch = char::from_u32(0x100 * (1 + rng.below(30) as u32) + low as u32).unwrap_or('Ł');
            let mut buf = [0u8; 4];
            for (k, b) in ch.encode_utf8(&mut buf).bytes().enumerate() { t.insert(at + k, 100 + b as i64); }
        }
        10 if !lastdigits.is_empty() => { // a 13-digit value with its top bits set, as a position field
            let i = *rng.pick(&lastdigits);
            t.remove(i);
            let pat: &[i64] = *rng.pick(&[&[62, 63, 63, 63, 63, 63, 63, 63, 63, 63, 63, 63, 31][..], &[63, 63, 63, 63, 63, 63, 63, 63, 63, 63, 63, 63, 31][..],
                                          &[32, 32, 32, 32, 32, 32, 32, 32, 32, 32, 32, 32, 16][..], &[62, 63, 63, 63, 63, 63, 63, 63, 63, 63, 63, 63, 15][..]]);
            for (k, d) in pat.iter().enumerate() { t.insert(i + k, *d); }
        }
        _ => { t.insert(at, 64); }
    }
}

/// number of mappings texts in a document (its own, or those of its sections' maps, recursively)
fn count_texts(d: &Value) -> usize {
    let own = d.get("mappings").and_then(|m| m.as_array()).map_or(0, |a| a.len().min(1));
    let secs = d.get("sections").and_then(|s| s.as_array()).and_then(|a| a.first()).and_then(|l| l.as_array())
        .map_or(0, |l| l.iter().map(|s| s.get("map").and_then(|m| m.as_array()).and_then(|a| a.first()).map_or(0, count_texts)).sum());
    own + secs
}
/// damage the k-th mappings text of the document (same traversal order as count_texts)
fn damage(rng: &mut Rng, d: &mut Value, k: &mut usize, nf: u64) {
    if d.get("mappings").and_then(|m| m.as_array()).map_or(false, |a| !a.is_empty()) {
        if *k == 0 {
            let mut t: Vec<i64> = d["mappings"][0].as_array().unwrap().iter().map(|x| x.as_i64().unwrap()).collect();
            for _ in 0..nf { fault(rng, &mut t); }
            d["mappings"] = json!([t]);
            *k = usize::MAX;
            return;
        }
        *k -= 1;
    }
    if let Some(l) = d.get_mut("sections").and_then(|s| s.as_array_mut()).and_then(|a| a.first_mut()).and_then(|l| l.as_array_mut()) {
        for s in l.iter_mut() {
            if *k == usize::MAX { return; }
            if let Some(m) = s.get_mut("map").and_then(|m| m.as_array_mut()).and_then(|a| a.first_mut()) { damage(rng, m, k, nf); }
        }
    }
}

pub fn gen(rng: &mut Rng, size: usize) -> Value {
    // the damaged text stands in every kind of document: a minimal one, a random flat / Hermes document (any key
    // order, tables of any length), or a section of a (nested) index, with or without a url next to the map
    let nf = 1 + rng.below(2);
    if rng.chance(1, 5) {
        // a well-formed text written for MORE sources / names than the document declares, the other tables
        // (sourcesContent, ignoreList) sized independently: any index at or past the declared length must be refused
        let h = rng.chance(1, 4);
        let mut d = crate::c02::gen_flat_doc(rng, size, h);
        let nsrc = d["sources"][0].as_array().map_or(0, |a| a.len()) as u64;
        let nnm = d["names"][0].as_array().map_or(0, |a| a.len()) as u64;
        let (xs, xn) = (rng.below(3), if rng.chance(1, 2) { 0 } else { rng.below(3) });
        let nseg = 1 + rng.below((size * 6) as u64) as usize;
        d["mappings"] = json!([gen_mappings(rng, nseg, nsrc + xs, nnm + xn, false)]);
        d["contents"] = json!([(0..nsrc + rng.below(4)).map(|_| if rng.chance(1, 3) { json!([]) } else { json!(["c"]) }).collect::<Vec<_>>()]);
        d.as_object_mut().unwrap().remove("range");
        if h { d["xfs"] = json!([(0..nsrc).map(|_| json!([])).collect::<Vec<_>>()]); }
        return json!({"doc": d});
    }
    if rng.chance(1, 2) {
        let mut d = if rng.chance(1, 2) { crate::c02::gen_index_doc(rng, size, 2) } else { let h = rng.chance(1, 4); crate::c02::gen_flat_doc(rng, size, h) };
        let n = count_texts(&d);
        if n > 0 {
            let mut k = rng.below(n as u64) as usize;
            damage(rng, &mut d, &mut k, nf);
            return json!({"doc": d});
        }
    }
    let nsrc = rng.below(3);
    let nnm = rng.below(3);
    let nseg = if rng.chance(1, 12) { 100 + rng.below(250) as usize } else { 1 + rng.below((size * 6) as u64) as usize };
    let mut text = gen_mappings(rng, nseg, nsrc, nnm, false);
    for _ in 0..nf {
        fault(rng, &mut text);
    }
    json!({"doc": default_doc(&json!(text), nsrc, nnm)})
}
