//! Extension E04: typed entry points and sections resolved after decoding
use crate::doc::*;
use crate::*;
use serde_json::{json, Value};
use sourcemap::{DecodedMap, Error, SourceMap, SourceMapHermes, SourceMapIndex};

fn class<T>(r: Result<T, Error>) -> &'static str {
    match r { Ok(_) => "ok", Err(Error::IncompatibleSourceMap) => "incompatible", Err(_) => "err" }
}
fn flat_out(i: &SourceMapIndex) -> Value {
    match i.flatten() {
        Ok(sm) => { let mut p = proj_sm(&sm); p.insert("kind".into(), json!("regular")); json!({"k": "ok", "p": Value::Object(p)}) }
        Err(_) => json!({"k": "err"}),
    }
}

pub fn run(case: &Value, em: &mut Emitter) {
    let doc = normalise_doc(&case["doc"]);
    let bytes = write_doc(&doc);
    if case["op"] == "typed" {
        let out = guard(|| json!({"k": "ok", "regular": class(SourceMap::from_slice(&bytes)), "index": class(SourceMapIndex::from_slice(&bytes)),
                                  "hermes": class(SourceMapHermes::from_slice(&bytes)),
                                  "regular_rd": class(SourceMap::from_reader(&bytes[..])), "index_rd": class(SourceMapIndex::from_reader(&bytes[..]))}));
        em.emit("typed", json!({"doc": doc}), out);
        return;
    }
    if case["op"] == "flatten_rewrite" {
        let smi = match sourcemap::decode_slice(&bytes) { Ok(DecodedMap::Index(i)) => i, _ => return };
        let p0 = proj_map(&DecodedMap::Index(smi.clone()));
        let prefixes: Vec<String> = case["opts"]["prefixes"].as_array().unwrap().iter().map(cps_to_string).collect();
        let pr: Vec<&str> = prefixes.iter().map(|s| s.as_str()).collect();
        let ro = sourcemap::RewriteOptions { with_names: case["opts"]["names"].as_bool().unwrap(), with_source_contents: case["opts"]["contents"].as_bool().unwrap(),
                                             strip_prefixes: &pr, ..Default::default() };
        let out = guard(|| match smi.flatten_and_rewrite(&ro) {
            Ok(sm) => json!({"k": "ok", "p2": proj_map(&DecodedMap::Regular(sm))}),
            Err(_) => json!({"k": "err"}),
        });
        em.emit("flatten_rewrite", json!({"p0": p0, "opts": case["opts"]}), out);
        return;
    }
    // "sections": an index document whose section k (1-based) carries only a URL; plug map `plug` in afterwards
    let k = case["k"].as_u64().unwrap() as u32;
    let plug_doc = normalise_doc(&case["plug"]);
    let plug = match sourcemap::decode_slice(&write_doc(&plug_doc)) { Ok(d) => d, Err(_) => return };
    let mut smi = match sourcemap::decode_slice(&bytes) { Ok(DecodedMap::Index(i)) => i, _ => return };
    let p0 = proj_map(&DecodedMap::Index(smi.clone()));
    let m = proj_map(&plug);
    let out = guard(|| {
        let flat0 = flat_out(&smi);
        smi.get_section_mut(k - 1).unwrap().set_sourcemap(Some(plug.clone()));
        let flat1 = flat_out(&smi);
        smi.get_section_mut(k - 1).unwrap().set_sourcemap(None);
        let flat2 = flat_out(&smi);
        smi.get_section_mut(k - 1).unwrap().set_url(Some("http://new/url.map"));
        smi.set_file(Some("renamed-bundle.js"));
        let url = opt_str(smi.get_section(k - 1).unwrap().get_url());
        let file = opt_str(smi.get_file());
        let mut b = vec![];
        smi.to_writer(&mut b).expect("to_writer");
        let again = SourceMapIndex::from_slice(&b).expect("from_slice");
        json!({"k": "ok", "flat0": flat0, "flat1": flat1, "flat2": flat2, "url": url, "file": file,
               "url_written": opt_str(again.get_section(k - 1).unwrap().get_url()), "file_written": opt_str(again.get_file())})
    });
    em.emit("sections", json!({"p0": p0, "k": k, "m": m, "newurl": ["http://new/url.map"], "newfile": ["renamed-bundle.js"]}), out);
}

pub fn gen(rng: &mut Rng, size: usize) -> Value {
    if rng.chance(1, 3) {
        let prefixes: Vec<Value> = match rng.below(4) { 0 => vec![], 1 => vec![cps("/abs")], 2 => vec![cps("dir"), cps("http://h")], _ => vec![cps("r"), cps("/")] };
        return json!({"op": "flatten_rewrite", "doc": crate::c02::gen_index_doc(rng, size, 1),
                      "opts": {"names": rng.chance(1, 2), "contents": rng.chance(1, 2), "prefixes": prefixes}});
    }
    if rng.chance(1, 2) {
        let d = match rng.below(4) { 0 => crate::c02::gen_index_doc(rng, size, 1), 1 => crate::c02::gen_flat_doc(rng, size, true), _ => crate::c02::gen_flat_doc(rng, size, false) };
        return json!({"op": "typed", "doc": d});
    }
    // an index with every section resolved except section k
    let n = 1 + rng.below(3);
    let k = 1 + rng.below(n);
    let mut line = 0u64;
    let mut secs = vec![];
    for i in 1..=n {
        let mut s = json!({"off": [line, rng.below(4)]});
        if i == k { s["url"] = json!(["http://x/unresolved.map"]); }
        else { let mut m = crate::c02::gen_flat_doc(rng, 2, false); m.as_object_mut().unwrap().remove("junk"); s["map"] = json!([m]); }
        secs.push(s);
        line += 40;
    }
    let hermes_plug = rng.chance(1, 4);
    let mut plug = crate::c02::gen_flat_doc(rng, 2, hermes_plug);
    plug.as_object_mut().unwrap().remove("junk");
    json!({"op": "sections", "doc": {"version": [3], "file": [{"s": "bundle.js"}], "sections": [secs]}, "k": k, "plug": plug})
}
