//! Building real maps from abstract models (three ways) and the events of the map family
//! (C01 round trip, C03 encoder output, C04 ordering/lookup, C07 range mappings).
use crate::doc::*;
use crate::*;
use serde_json::{json, Value};
use sourcemap::{DecodedMap, RawToken, SourceMap, SourceMapBuilder};
use std::sync::Arc;

/// flat abstract model, normalised: {toks, sources:[cps], names:[str], contents:[[]|[str]] (len = nsrc or empty),
/// root:[]|[cps], file:[]|[str], debug_id:[]|[str], ignore:[int]}
pub fn model_from_case(case: &Value) -> Value {
    let nsrc = case["nsrc"].as_u64().unwrap_or(0);
    let nnm = case["nnm"].as_u64().unwrap_or(0);
    let mut m = json!({
        "toks": case["toks"],
        "sources": case.get("sources").cloned().unwrap_or_else(|| Value::Array((0..nsrc).map(|i| cps(&format!("s{}", i))).collect())),
        "names": case.get("names").cloned().unwrap_or_else(|| Value::Array((0..nnm).map(|i| json!(format!("n{}", i))).collect())),
    });
    for k in ["contents", "root", "file", "debug_id", "ignore"] {
        m[k] = case.get(k).cloned().unwrap_or_else(|| json!([]));
    }
    m
}

pub fn u(v: &Value) -> u32 {
    let x = v.as_i64().unwrap();
    // -1: none;  2147483647: the stand-in for u32::MAX;  2^30+1 / +2 / +3: the stand-ins for 2^31-1, 2^31, 2^31+5
    // (extreme positions on either side of the sign bit; see doc::num)
    if x < 0 || x == 2147483647 { !0 } else if x == (1 << 30) + 1 { (1u32 << 31) - 1 } else if x == (1 << 30) + 2 { 1u32 << 31 } else if x == (1 << 30) + 3 { (1u32 << 31) + 5 } else { x as u32 }
}
pub fn raw_tokens(m: &Value) -> Vec<RawToken> {
    m["toks"].as_array().unwrap().iter().map(|t| RawToken {
        dst_line: u(&t[0]), dst_col: u(&t[1]), src_id: u(&t[2]), src_line: u(&t[3]), src_col: u(&t[4]),
        name_id: u(&t[5]), is_range: t[6].as_i64().unwrap() != 0,
    }).collect()
}
fn opt_s(v: &Value) -> Option<String> {
    v.as_array().and_then(|a| a.first()).map(|s| s.as_str().unwrap().to_string())
}
fn opt_cps(v: &Value) -> Option<String> {
    v.as_array().and_then(|a| a.first()).map(cps_to_string)
}
fn strs(v: &Value) -> Vec<String> {
    v.as_array().unwrap().iter().map(|s| s.as_str().unwrap().to_string()).collect()
}
fn srcs(v: &Value) -> Vec<String> {
    v.as_array().unwrap().iter().map(cps_to_string).collect()
}
fn contents(m: &Value) -> Option<Vec<Option<String>>> {
    let c = m["contents"].as_array().unwrap();
    if c.is_empty() { None } else { Some(c.iter().map(opt_s).collect()) }
}
fn debug_id(m: &Value) -> Option<debugid::DebugId> {
    opt_s(&m["debug_id"]).map(|s| s.parse().unwrap())
}

/// the harness's own mappings writer (tokens in the given order)
pub fn own_mappings(toks: &[Value]) -> Vec<i64> {
    let mut out = vec![];
    let (mut line, mut dc, mut src, mut sl, mut sc, mut nm) = (0i64, 0i64, 0i64, 0i64, 0i64, 0i64);
    let mut first = true;
    for t in toks {
        let g = |i: usize| t[i].as_i64().unwrap();
        if g(0) != line {
            while line < g(0) { out.push(65); line += 1; }
            dc = 0;
        } else if !first {
            out.push(64);
        }
        first = false;
        let mut vals = vec![g(1) - dc];
        dc = g(1);
        if g(2) >= 0 {
            vals.extend([g(2) - src, g(3) - sl, g(4) - sc]);
            src = g(2); sl = g(3); sc = g(4);
            if g(5) >= 0 { vals.push(g(5) - nm); nm = g(5); }
        }
        out.extend(crate::c11::generate_own(&vals));
    }
    out
}
pub fn own_range(toks: &[Value]) -> Option<Vec<i64>> {
    if !toks.iter().any(|t| t[6].as_i64().unwrap() != 0) { return None; }
    let maxline = toks.iter().filter(|t| t[6].as_i64().unwrap() != 0).map(|t| t[0].as_i64().unwrap()).max().unwrap();
    let mut out = vec![];
    for line in 0..=maxline {
        if line > 0 { out.push(65); }
        let flags: Vec<bool> = toks.iter().filter(|t| t[0].as_i64().unwrap() == line).map(|t| t[6].as_i64().unwrap() != 0).collect();
        let last = match flags.iter().rposition(|&b| b) { Some(p) => p, None => continue };
        let mut i = 0;
        while i <= last {
            let mut d = 0;
            for b in 0..6 { if i + b <= last && flags[i + b] { d |= 1 << b; } }
            out.push(d);
            i += 6;
        }
    }
    Some(out)
}

pub fn model_doc(m: &Value) -> Value {
    let toks = m["toks"].as_array().unwrap();
    // the document is written from tokens sorted by position (stable), as a producer would
    let mut sorted: Vec<Value> = toks.clone();
    sorted.sort_by_key(|t| (t[0].as_i64().unwrap(), t[1].as_i64().unwrap()));
    let mut d = json!({
        "version": [3],
        "sources": [m["sources"].as_array().unwrap().iter().map(|s| json!([s])).collect::<Vec<_>>()],
        "names": [m["names"].as_array().unwrap().iter().map(|s| json!({"s": s})).collect::<Vec<_>>()],
        "mappings": [own_mappings(&sorted)],
        "root": m["root"], "file": match opt_s(&m["file"]) { Some(f) => json!([{"s": f}]), None => json!([]) },
        "debug_id": m["debug_id"],
    });
    if let Some(r) = own_range(&sorted) { d["range"] = json!([r]); }
    if !m["contents"].as_array().unwrap().is_empty() { d["contents"] = json!([m["contents"]]); }
    if !m["ignore"].as_array().unwrap().is_empty() { d["ignore"] = json!([m["ignore"]]); }
    d
}

/// build a real map from the model; `how` in new | builder | doc
pub fn build(m: &Value, how: &str) -> Option<SourceMap> {
    match how {
        "new" => {
            let mut sm = SourceMap::new(
                opt_s(&m["file"]).map(Arc::from),
                raw_tokens(m),
                strs(&m["names"]).into_iter().map(Arc::from).collect(),
                srcs(&m["sources"]).into_iter().map(Arc::from).collect(),
                contents(m).map(|c| c.into_iter().map(|o| o.map(Arc::from)).collect()),
            );
            sm.set_source_root(opt_cps(&m["root"]));
            sm.set_debug_id(debug_id(m));
            for i in m["ignore"].as_array().unwrap() { sm.add_to_ignore_list(i.as_u64().unwrap() as u32); }
            Some(sm)
        }
        "builder" => {
            let file = opt_s(&m["file"]);
            let mut b = SourceMapBuilder::new(file.as_deref());
            let ss = srcs(&m["sources"]);
            for (i, s) in ss.iter().enumerate() {
                if b.add_source(s) != i as u32 { return None; } // pool has duplicate strings: builder would merge them
            }
            let ns = strs(&m["names"]);
            for (i, n) in ns.iter().enumerate() {
                if b.add_name(n) != i as u32 { return None; }
            }
            for t in raw_tokens(m) {
                b.add_raw(t.dst_line, t.dst_col, t.src_line, t.src_col,
                          if t.src_id == !0 { None } else { Some(t.src_id) },
                          if t.name_id == !0 { None } else { Some(t.name_id) }, t.is_range);
            }
            if let Some(c) = contents(m) {
                for (i, o) in c.iter().enumerate() {
                    if i < ss.len() { b.set_source_contents(i as u32, o.as_deref()); }
                }
            }
            b.set_source_root(opt_cps(&m["root"]));
            b.set_debug_id(debug_id(m));
            for i in m["ignore"].as_array().unwrap() { b.add_to_ignore_list(i.as_u64().unwrap() as u32); }
            Some(b.into_sourcemap())
        }
        // every entry point of the builder on ONE builder, tokens handed over in a scrambled order: `add` (strings),
        // `add_raw` (ids) and `add_token` (a token of another map) must all end up in the one sorted map
        "builder_mixed" => {
            let file = opt_s(&m["file"]);
            let mut b = SourceMapBuilder::new(file.as_deref());
            let ss = srcs(&m["sources"]);
            for (i, s) in ss.iter().enumerate() {
                if b.add_source(s) != i as u32 { return None; }
            }
            let ns = strs(&m["names"]);
            for (i, n) in ns.iter().enumerate() {
                if b.add_name(n) != i as u32 { return None; }
            }
            let toks = raw_tokens(m);
            // (the donor has NO source root: add_token copies the token's RESOLVED source name, so a donor with a root would
            // hand over prefixed names -- new sources, not the ones added above)
            let mut m0 = m.clone();
            m0["root"] = json!([]);
            let donor = build(&m0, "new")?;
            let mut order: Vec<usize> = (0..toks.len()).collect();
            let mut x: u64 = 0x9E37_79B9 ^ toks.len() as u64;
            for t in &toks { x = x.wrapping_mul(6364136223846793005).wrapping_add(t.dst_col as u64 + 3 * t.dst_line as u64 + 1); }
            for i in (1..order.len()).rev() {
                x = x.wrapping_mul(6364136223846793005).wrapping_add(1442695040888963407);
                order.swap(i, ((x >> 33) % (i as u64 + 1)) as usize);
            }
            for (k, &i) in order.iter().enumerate() {
                let t = toks[i];
                let src = if t.src_id == !0 { None } else { Some(t.src_id) };
                let nm = if t.name_id == !0 { None } else { Some(t.name_id) };
                x = x.wrapping_mul(6364136223846793005).wrapping_add(1442695040888963407);
                match (x >> 33) % 4 {
                    0 | 1 => { b.add(t.dst_line, t.dst_col, t.src_line, t.src_col, src.and_then(|i| ss.get(i as usize)).map(|s| s.as_str()),
                                     nm.and_then(|i| ns.get(i as usize)).map(|s| s.as_str()), t.is_range); }
                    2 => { b.add_raw(t.dst_line, t.dst_col, t.src_line, t.src_col, src, nm, t.is_range); }
                    _ => {
                        // the donor map holds the same tokens (sorted): find one equal to t
                        match donor.tokens().find(|d| d.get_raw_token() == t) {
                            Some(d) => { b.add_token(&d, true); }
                            None => { b.add_raw(t.dst_line, t.dst_col, t.src_line, t.src_col, src, nm, t.is_range); }
                        }
                    }
                }
                let _ = k;
            }
            if let Some(c) = contents(m) {
                for (i, o) in c.iter().enumerate() {
                    if i < ss.len() { b.set_source_contents(i as u32, o.as_deref()); }
                }
            }
            b.set_source_root(opt_cps(&m["root"]));
            b.set_debug_id(debug_id(m));
            for i in m["ignore"].as_array().unwrap() { b.add_to_ignore_list(i.as_u64().unwrap() as u32); }
            Some(b.into_sourcemap())
        }
        "doc" => match sourcemap::decode_slice(&write_doc(&model_doc(m))) {
            Ok(DecodedMap::Regular(sm)) => Some(sm),
            _ => None,
        },
        _ => None,
    }
}

/// parse serialised output back into an abstract document (inverse of write_doc), recording key
/// order and keys whose value is null
pub fn parse_doc(bytes: &[u8]) -> Value {
    let v: Value = match serde_json::from_slice(bytes) { Ok(v) => v, Err(_) => return json!({"bad": "json"}) };
    parse_obj(&v)
}
fn parse_obj(v: &Value) -> Value {
    let o = match v.as_object() { Some(o) => o, None => return json!({"bad": "not an object"}) };
    let mut d = json!({"order": o.keys().cloned().collect::<Vec<_>>(), "nulls": [], "other": []});
    for k in ["version", "file", "root", "sources", "contents", "names", "mappings", "range", "ignore", "debug_id", "debugId", "xfs", "sections", "xfo", "xmp"] {
        d[k] = json!([]);
    }
    let strsyms = |s: &Value| bytes_to_syms(s.as_str().unwrap_or("\u{1}").as_bytes());
    for (k, val) in o {
        if val.is_null() { d["nulls"].as_array_mut().unwrap().push(json!(k)); continue; }
        match k.as_str() {
            "version" => d["version"] = json!([val]),
            "file" => d["file"] = json!([match val { Value::String(s) => json!({"s": s}), Value::Number(n) => json!({"n": n}), _ => json!({"raw": val.to_string()}) }]),
            "sourceRoot" => d["root"] = json!([cps(val.as_str().unwrap_or("\u{1}"))]),
            "sources" => d["sources"] = json!([val.as_array().map(|a| a.iter().map(|s| match s { Value::String(s) => json!([cps(s)]), _ => json!([]) }).collect::<Vec<_>>()).unwrap_or_default()]),
            "sourcesContent" => d["contents"] = json!([val.as_array().map(|a| a.iter().map(|s| match s { Value::String(s) => json!([s]), _ => json!([]) }).collect::<Vec<_>>()).unwrap_or_default()]),
            "names" => d["names"] = json!([val.as_array().map(|a| a.iter().map(|s| match s { Value::String(s) => json!({"s": s}), Value::Number(n) => json!({"n": n}), _ => json!({"raw": s.to_string()}) }).collect::<Vec<_>>()).unwrap_or_default()]),
            "mappings" => d["mappings"] = json!([strsyms(val)]),
            "rangeMappings" => d["range"] = json!([strsyms(val)]),
            "ignoreList" => d["ignore"] = json!([val]),
            "debug_id" => d["debug_id"] = json!([val]),
            "debugId" => d["debugId"] = json!([val]),
            "x_facebook_sources" => d["xfs"] = json!([val.as_array().map(|a| a.iter().map(|e| match e.as_array() {
                None => json!([]),
                Some(ms) => json!([ms.iter().map(|m| json!({"names": m["names"], "mappings": strsyms(&m["mappings"])})).collect::<Vec<_>>()]),
            }).collect::<Vec<_>>()).unwrap_or_default()]),
            "sections" => d["sections"] = json!([val.as_array().map(|a| a.iter().map(|s| {
                json!({"off": [s["offset"]["line"], s["offset"]["column"]],
                       "url": match s.get("url") { Some(Value::String(u)) => json!([u]), _ => json!([]) },
                       "url_null": matches!(s.get("url"), Some(Value::Null)),
                       "map_null": matches!(s.get("map"), Some(Value::Null)),
                       "map": match s.get("map") { Some(m) if m.is_object() => json!([parse_obj(m)]), _ => json!([]) }})
            }).collect::<Vec<_>>()).unwrap_or_default()]),
            "x_facebook_offsets" => d["xfo"] = json!([val.as_array().map(|a| a.iter().map(|e| if e.is_null() { json!([]) } else { json!([e]) }).collect::<Vec<_>>()).unwrap_or_default()]),
            "x_metro_module_paths" => d["xmp"] = json!([val]),
            other => d["other"].as_array_mut().unwrap().push(json!(other)),
        }
    }
    d
}

pub fn to_bytes(d: &DecodedMap) -> Result<Vec<u8>, String> {
    let mut v = vec![];
    d.to_writer(&mut v).map_err(|e| format!("{:?}", e))?;
    Ok(v)
}

/// a sink that takes only part of what it is offered (as pipes, sockets and compressors do): at most `cap` bytes
/// per call, and every third call is interrupted first
pub struct ShortWriter { pub buf: Vec<u8>, cap: usize, calls: usize }
impl ShortWriter {
    pub fn new(cap: usize) -> Self { ShortWriter { buf: vec![], cap: cap.max(1), calls: 0 } }
}
impl std::io::Write for ShortWriter {
    fn write(&mut self, b: &[u8]) -> std::io::Result<usize> {
        self.calls += 1;
        if self.calls % 3 == 0 { return Err(std::io::Error::from(std::io::ErrorKind::Interrupted)); }
        let n = b.len().min(self.cap);
        self.buf.extend_from_slice(&b[..n]);
        Ok(n)
    }
    fn flush(&mut self) -> std::io::Result<()> { Ok(()) }
}
pub fn encode_out_short(d: &DecodedMap, cap: usize) -> Value {
    guard(|| {
        let mut w = ShortWriter::new(cap);
        match d.to_writer(&mut w) {
            Ok(()) => json!({"k": "ok", "doc": parse_doc(&w.buf)}),
            Err(e) => json!({"k": "err", "e": format!("{:?}", e)}),
        }
    })
}

/// C01: serialise, decode, serialise, decode, serialise; report the decoded projection and
/// whether the 2nd and 3rd serialisations are byte-identical
pub fn roundtrip_out(d: &DecodedMap) -> Value {
    guard(|| {
        let b1 = match to_bytes(d) { Ok(b) => b, Err(e) => return json!({"k": "err", "stage": "write1", "e": e}) };
        let d2 = match sourcemap::decode_slice(&b1) { Ok(x) => x, Err(e) => return json!({"k": "err", "stage": "read1", "e": format!("{:?}", e)}) };
        let b2 = match to_bytes(&d2) { Ok(b) => b, Err(e) => return json!({"k": "err", "stage": "write2", "e": e}) };
        let d3 = match sourcemap::decode_slice(&b2) { Ok(x) => x, Err(e) => return json!({"k": "err", "stage": "read2", "e": format!("{:?}", e)}) };
        let b3 = match to_bytes(&d3) { Ok(b) => b, Err(e) => return json!({"k": "err", "stage": "write3", "e": e}) };
        // the reader entry point must read the serialised form as the slice entry point does
        // (the stream arrives in uneven pieces, then byte by byte: reads end inside multi-byte characters)
        let sizes: Vec<usize> = (0..64).map(|k| 1 + (b1.len() * (k + 3) / 7) % 37).collect();
        let p2 = proj_map(&d2);
        let via_reader = [sourcemap::decode(&b1[..]), sourcemap::decode(crate::c12::ChunkedReader::new(b1.clone(), sizes, 1)),
                          sourcemap::decode(crate::c12::ChunkedReader::new(b1.clone(), vec![], 8191))]
            .into_iter().all(|r| match r { Ok(x) => proj_map(&x) == p2, Err(_) => false });
        json!({"k": "ok", "p2": proj_map(&d2), "same": b2 == b3, "reader_same": via_reader, "detect": sourcemap::is_sourcemap_slice(&b1)})
    })
}
/// C03: the serialised form, parsed by serde_json::Value into an abstract document
pub fn encode_out(d: &DecodedMap) -> Value {
    guard(|| match to_bytes(d) {
        Ok(b) => json!({"k": "ok", "doc": parse_doc(&b)}),
        Err(e) => json!({"k": "err", "e": e}),
    })
}
