//! Conformance harness: executes cases (TLC-generated or randomly driven) against the
//! real `sourcemap` crate and records one NDJSON event per public call.  It contains no
//! oracle: every event is judged afterwards by TLC against the Trace_*.tla specifications.
use serde_json::{json, Value};
use std::io::{BufRead, BufWriter, Write};

mod util;
mod c11;
mod doc;
mod c02;
mod c06;
mod maps;
mod big;
mod c01;
mod c04;
mod c19;
mod c20;
mod c12;
mod c15;
mod c16;
mod c13;
mod c10;
mod c09;
mod c14;
mod c08;
mod c18;
mod c17;
mod e01;
mod e03;
mod e02;
mod e04;
mod e05;
mod e07;
mod e08;
mod e09;
mod c05;

#[global_allocator]
static GLOBAL: c05::Counting = c05::Counting;

pub use util::*;

pub struct Prop {
    pub id: &'static str,
    /// execute one case, emitting events
    pub run: fn(&Value, &mut Emitter),
    /// generate one random case (size hint)
    pub gen: fn(&mut Rng, usize) -> Value,
}

fn props() -> Vec<Prop> {
    vec![
        Prop { id: "C11", run: c11::run, gen: c11::gen },
        Prop { id: "C02", run: c02::run, gen: c02::gen },
        Prop { id: "C06", run: c06::run, gen: c06::gen },
        Prop { id: "C01", run: c01::run, gen: c01::gen },
        Prop { id: "C03", run: c01::run_c03, gen: c01::gen_c03 },
        Prop { id: "C04", run: c04::run, gen: c04::gen },
        Prop { id: "C07", run: c04::run_c07, gen: c04::gen_c07 },
        Prop { id: "C19", run: c19::run, gen: c19::gen },
        Prop { id: "C20", run: c20::run, gen: c20::gen },
        Prop { id: "C12", run: c12::run, gen: c12::gen },
        Prop { id: "C15", run: c15::run, gen: c15::gen },
        Prop { id: "C16", run: c16::run, gen: c16::gen },
        Prop { id: "C13", run: c13::run, gen: c13::gen },
        Prop { id: "C10", run: c10::run, gen: c10::gen },
        Prop { id: "C09", run: c09::run, gen: c09::gen },
        Prop { id: "C14", run: c14::run, gen: c14::gen },
        Prop { id: "C08", run: c08::run, gen: c08::gen },
        Prop { id: "C18", run: c18::run, gen: c18::gen },
        Prop { id: "C17", run: c17::run, gen: c17::gen },
        Prop { id: "C05", run: c05::run, gen: c05::gen },
        Prop { id: "E01", run: e01::run, gen: e01::gen },
        Prop { id: "E03", run: e03::run, gen: e03::gen },
        Prop { id: "E02", run: e02::run, gen: e02::gen },
        Prop { id: "E04", run: e04::run, gen: e04::gen },
        Prop { id: "E05", run: e05::run, gen: e05::gen },
        Prop { id: "E06", run: c13::run, gen: c13::gen_e06 },
        Prop { id: "E07", run: e07::run, gen: e07::gen },
        Prop { id: "E08", run: e08::run, gen: e08::gen },
        Prop { id: "E09", run: e09::run, gen: e09::gen },
    ]
}

/// The case being executed is kept in `<trace>.current`, rewritten before every case: when the code under test ABORTS
/// the process (a non-unwinding panic, e.g. a failed precondition check of unsafe code), the orchestrator finds the
/// culprit there.  Aborts cannot be caught in-process; like panics they are data, not tool errors.
struct Current(std::fs::File);
impl Current {
    fn new(trace_path: &str) -> Current {
        Current(std::fs::File::create(format!("{}.current", trace_path)).expect("create sidecar"))
    }
    fn set(&mut self, case: &Value) {
        use std::io::{Seek, SeekFrom};
        let text = case.to_string();
        let _ = self.0.seek(SeekFrom::Start(0));
        let _ = self.0.write_all(text.as_bytes());
        let _ = self.0.set_len(text.len() as u64);
    }
}

fn usage() -> ! {
    eprintln!("usage: harness exec <ID> <cases.ndjson> <trace.ndjson>\n       harness drive <ID> <seed> <n> <size> <trace.ndjson> [<cases-out.ndjson>]");
    std::process::exit(2)
}

fn main() {
    let args: Vec<String> = std::env::args().collect();
    if args.len() < 3 {
        usage();
    }
    silence_panics();
    let ps = props();
    let p = match ps.iter().find(|p| p.id == args[2]) {
        Some(p) => p,
        None => {
            eprintln!("unknown property {}", args[2]);
            std::process::exit(2)
        }
    };
    match args[1].as_str() {
        "exec" => {
            if args.len() < 5 {
                usage();
            }
            let f = std::fs::File::open(&args[3]).expect("open cases");
            let out = BufWriter::new(std::fs::File::create(&args[4]).expect("create trace"));
            let mut em = Emitter::new(out, "exec");
            let mut cur = Current::new(&args[4]);
            for (n, line) in std::io::BufReader::new(f).lines().enumerate() {
                let line = line.expect("read");
                if line.trim().is_empty() {
                    continue;
                }
                let case: Value = serde_json::from_str(&line).expect("case json");
                cur.set(&case);
                em.begin_case(n as u64, &case);
                (p.run)(&case, &mut em);
            }
            em.finish();
        }
        "drive" => {
            if args.len() < 7 {
                usage();
            }
            let seed: u64 = args[3].parse().expect("seed");
            let n: u64 = args[4].parse().expect("n");
            let size: usize = args[5].parse().expect("size");
            let out = BufWriter::new(std::fs::File::create(&args[6]).expect("create trace"));
            let mut cases_out = args
                .get(7)
                .map(|p| BufWriter::new(std::fs::File::create(p).expect("create cases")));
            let mut em = Emitter::new(out, "drive");
            let mut cur = Current::new(&args[6]);
            let mut rng = Rng::new(seed ^ 0x9E37_79B9_7F4A_7C15);
            for k in 0..n {
                let case = (p.gen)(&mut rng, size);
                if let Some(w) = cases_out.as_mut() {
                    writeln!(w, "{}", case).unwrap();
                }
                cur.set(&case);
                em.begin_case(k, &case);
                (p.run)(&case, &mut em);
            }
            em.finish();
        }
        _ => usage(),
    }
    let _ = json!(null);
}
