//! C11 — VLQ: sourcemap::vlq::{parse_vlq_segment, generate_vlq_segment}
use crate::*;
use serde_json::{json, Value};
use sourcemap::vlq::{generate_vlq_segment, parse_vlq_segment};

pub fn run(case: &Value, em: &mut Emitter) {
    match case["op"].as_str().unwrap() {
        "dec" => {
            let bytes = syms_to_bytes(&case["ds"]);
            let out = match String::from_utf8(bytes) {
                Ok(s) => guard(|| match parse_vlq_segment(&s) {
                    Ok(vs) => json!({"k": "ok", "vals": vs.iter().map(|&v| int_to_val(v)).collect::<Vec<_>>()}),
                    Err(e) => json!({"k": "err", "e": format!("{:?}", e)}),
                }),
                Err(_) => return, // not a str: cannot be passed to the API
            };
            em.emit("dec", json!({"ds": case["ds"]}), out);
        }
        "enc" => {
            let vals: Vec<i64> = case["vals"].as_array().unwrap().iter().map(val_to_int).collect();
            let out = guard(|| match generate_vlq_segment(&vals) {
                Ok(s) => json!({"k": "ok", "ds": bytes_to_syms(s.as_bytes())}),
                Err(e) => json!({"k": "err", "e": format!("{:?}", e)}),
            });
            em.emit("enc", json!({"vals": case["vals"]}), out);
        }
        _ => panic!("bad C11 case"),
    }
}

fn rand_val(rng: &mut Rng) -> i64 {
    // uniform in bit length 0..=62, then uniform below that; plus u32 difference classes
    match rng.below(10) {
        0 => {
            let a = *rng.pick(&[0u32, 1, 2, u32::MAX, u32::MAX - 1, 1 << 31, (1 << 31) - 1, 65535, 65536]);
            let b = *rng.pick(&[0u32, 1, 2, u32::MAX, u32::MAX - 1, 1 << 31, (1 << 31) - 1, 65535, 65536]);
            i64::from(a) - i64::from(b)
        }
        1 => i64::from(rng.next() as u32) - i64::from(rng.next() as u32),
        _ => {
            let bits = rng.below(63);
            let m = if bits == 0 { 0 } else { (rng.next() & ((1u64 << bits) - 1)) | (1u64 << (bits - 1)) };
            if rng.chance(1, 2) { -(m as i64) } else { m as i64 }
        }
    }
}

/// one value written with a chosen number of digits (1..=15): continuation digits whose payloads are random, all
/// zero or all ones, then a terminator of any payload -- every digit-count class is equally likely
fn digits_class(rng: &mut Rng) -> Vec<i64> {
    let nd = 1 + rng.below(15);
    let style = rng.below(3);
    let mut ds: Vec<i64> = (1..nd).map(|_| 32 + match style { 0 => rng.below(32) as i64, 1 => 0, _ => 31 }).collect();
    ds.push(rng.below(32) as i64);
    ds
}

pub fn gen(rng: &mut Rng, size: usize) -> Value {
    if rng.chance(1, 5) {
        let mut ds = vec![];
        for _ in 0..1 + rng.below(3) { ds.extend(digits_class(rng)); }
        return json!({"op": "dec", "ds": ds});
    }
    match rng.below(4) {
        0 | 1 => {
            let n = if rng.chance(1, 20) { 64 + rng.below(200) } else { 1 + rng.below(size.max(1) as u64) };
            let vals: Vec<Value> = (0..n).map(|_| int_to_val(rand_val(rng))).collect();
            json!({"op": "enc", "vals": vals})
        }
        2 => {
            // random string over the alphabet
            let n = if rng.chance(1, 20) { 64 + rng.below(300) } else { rng.below(3 * size as u64 + 1) };
            let ds: Vec<i64> = (0..n)
                .map(|_| if rng.chance(1, 3) { rng.below(32) as i64 } else { rng.below(64) as i64 })
                .collect();
            json!({"op": "dec", "ds": ds})
        }
        _ => {
            // canonical text of random values, sometimes damaged at the end
            let n = if rng.chance(1, 25) { 250 + rng.below(300) } else { 1 + rng.below(size.max(1) as u64) };
            let vals: Vec<i64> = (0..n).map(|_| rand_val(rng)).collect();
            let mut s = generate_own(&vals);
            match rng.below(6) {
                0 => {
                    s.pop();
                }
                1 => s.push(32 + rng.below(32) as i64),
                2 => {
                    let b = rng.below(256) as u8;
                    if b < 0x80 {
                        let at = rng.below(s.len() as u64 + 1) as usize;
                        s.insert(at, byte_to_sym(b));
                    } else {
                        // a character >= U+0080 (its UTF-8 bytes), among them code points whose LOW byte is an alphabet byte
                        let low = *rng.pick(&[b'A', b'g', b'+', b'/', b'0', b'z']);
                        let ch = if rng.chance(1, 2) { char::from_u32(0x100 * (1 + rng.below(200) as u32) + low as u32).unwrap_or('Ł') } else { *rng.pick(&['é', 'ÿ', '€', '𝒳']) };
                        let at = rng.below(s.len() as u64 + 1) as usize;
                        let mut buf = [0u8; 4];
                        for (k, byte) in ch.encode_utf8(&mut buf).bytes().enumerate() { s.insert(at + k, byte_to_sym(byte)); }
                    }
                }
                _ => {}
            }
            json!({"op": "dec", "ds": s})
        }
    }
}

/// the harness's own VLQ writer (used only to produce inputs)
pub fn generate_own(vals: &[i64]) -> Vec<i64> {
    let mut out = vec![];
    for &v in vals {
        let mut raw: u64 = (v.unsigned_abs() << 1) | (v < 0) as u64;
        loop {
            let mut d = (raw & 31) as i64;
            raw >>= 5;
            if raw != 0 {
                d |= 32;
            }
            out.push(d);
            if raw == 0 {
                break;
            }
        }
    }
    out
}
