//! Extension E01 (beyond the listed properties): seek/next, setters + persistence, token Eq/Ord,
//! RAM-bundle extras of index maps.  Specified as found in MapExt.tla.
use crate::c01::realise;
use crate::doc::*;
use crate::*;
use serde_json::{json, Value};
use sourcemap::{DecodedMap, SourceMap, SourceMapIndex};

fn reload(sm: &SourceMap) -> SourceMap {
    let mut b = vec![];
    sm.to_writer(&mut b).expect("to_writer");
    SourceMap::from_slice(&b).expect("from_slice")
}
fn p(sm: &SourceMap) -> Value {
    let mut m = proj_sm(sm);
    m.insert("kind".into(), json!("regular"));
    Value::Object(m)
}

pub fn run(case: &Value, em: &mut Emitter) {
    if case["op"] == "extras" {
        let doc = normalise_doc(&case["doc"]);
        let out = guard(|| match sourcemap::decode_slice(&write_doc(&doc)) {
            Ok(DecodedMap::Index(smi)) => {
                let obs = |i: &SourceMapIndex| json!({
                    "xfo": match i.x_facebook_offsets() { Some(v) => json!([v.iter().map(|o| match o { Some(n) => json!([n]), None => json!([]) }).collect::<Vec<_>>()]), None => json!([]) },
                    "xmp": match i.x_metro_module_paths() { Some(v) => json!([v]), None => json!([]) },
                    "for_ram_bundle": i.is_for_ram_bundle()});
                let mut b = vec![];
                smi.to_writer(&mut b).expect("to_writer");
                let again = SourceMapIndex::from_slice(&b).expect("from_slice");
                json!({"k": "ok", "o": obs(&smi), "o2": obs(&again)})
            }
            _ => json!({"k": "notindex"}),
        });
        em.emit("extras", json!({"doc": doc}), out);
        return;
    }
    let qs: Vec<Value> = case["qs"].as_array().cloned().unwrap_or_default();
    for (how, _m, _doc, d) in realise(case) {
        let sm = match &d { DecodedMap::Regular(sm) => sm, _ => continue };
        let toks: Vec<Value> = sm.tokens().map(|t| tok_json(&t)).collect();
        // seek
        let out = guard(|| json!({"k": "ok", "res": qs.iter().map(|q| {
            let mut it = sm.tokens();
            let found = it.seek(q[0].as_u64().unwrap() as u32, q[1].as_u64().unwrap() as u32);
            json!({"found": found, "next": match it.next() { Some(t) => json!([tok_json(&t)]), None => json!([]) }})
        }).collect::<Vec<_>>()}));
        em.emit("seek", json!({"how": how, "toks": toks, "qs": qs}), out);
        // setters
        let out = guard(|| {
            let mut a = sm.clone();
            a.remove_names();
            let removed = p(&a);
            let removed2 = p(&reload(&a));
            let mut b = sm.clone();
            b.set_file(Some("renamed.js"));
            b.set_debug_id(Some("11111111-1111-1111-1111-111111111111".parse().unwrap()));
            json!({"k": "ok", "removed": removed, "removed2": removed2, "set": p(&b), "set2": p(&reload(&b))})
        });
        em.emit("setters", json!({"how": how, "p": p(sm), "file": ["renamed.js"], "debug": ["11111111-1111-1111-1111-111111111111"]}), out);
        // Eq / Ord on neighbouring tokens
        let ts: Vec<_> = sm.tokens().collect();
        for w in ts.windows(2).take(6) {
            let res = |t: &sourcemap::Token<'_>| json!({"dl": num(t.get_dst_line()), "dc": num(t.get_dst_col()),
                "src": match t.get_source() { Some(s) => json!([s]), None => json!([]) }, "sl": num(t.get_src_line()), "sc": num(t.get_src_col()),
                "nm": opt_str(t.get_name()), "rg": t.is_range(), "raw": tok_json(t),
                "rawids": [idx(t.get_raw_token().src_id), idx(t.get_raw_token().name_id)]});
            let c = |o: std::cmp::Ordering| match o { std::cmp::Ordering::Less => -1, std::cmp::Ordering::Equal => 0, std::cmp::Ordering::Greater => 1 };
            em.emit("ord", json!({"a": res(&w[0]), "b": res(&w[1])}), json!({"k": "ok", "eq": w[0] == w[1], "cmp": c(w[0].cmp(&w[1])), "rcmp": c(w[1].cmp(&w[0]))}));
            // the three text renderings of a token
            let t = &w[0];
            em.emit("render", json!({"a": res(t)}), guard(|| json!({"k": "ok", "display": format!("{}", t), "alt": format!("{:#}", t), "debug": format!("{:?}", t),
                                                                      "ids": [idx(t.get_src_id()), idx(t.get_name_id())], "has": [t.has_source(), t.has_name()]})));
        }
    }
}

pub fn gen(rng: &mut Rng, size: usize) -> Value {
    if rng.chance(1, 4) {
        let mut d = crate::c02::gen_index_doc(rng, size, 0);
        let n = 1 + rng.below(5);
        if rng.chance(3, 4) { d["xfo"] = json!([(0..n).map(|_| if rng.chance(1, 4) { json!([]) } else { json!([rng.below(1000)]) }).collect::<Vec<_>>()]); }
        if rng.chance(3, 4) { d["xmp"] = json!([(0..n).map(|i| format!("mod/{}.js", i)).collect::<Vec<_>>()]); }
        return json!({"op": "extras", "doc": d});
    }
    let mut m = crate::c01::gen_model(rng, size, false);
    m["op"] = json!("seek");
    let toks: Vec<Value> = m["toks"].as_array().unwrap().clone();
    m["qs"] = json!(crate::c04::gen_queries(rng, &toks, 20).into_iter().filter(|q| q[0].as_i64().unwrap() < 1 << 30 && q[1].as_i64().unwrap() < 1 << 30).collect::<Vec<_>>());
    m
}
