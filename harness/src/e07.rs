//! Extension E07: SourceMapBuilder::load_local_source_contents against real files in a scratch directory
use crate::c13::full_call;
use crate::doc::*;
use crate::*;
use serde_json::{json, Value};
use sourcemap::SourceMapBuilder;

pub fn run(case: &Value, em: &mut Emitter) {
    // scratch tree: <tmp>/sm_e07_<pid>/<n>/outer/base ; files are written relative to base (they may climb to outer)
    let root = std::env::temp_dir().join(format!("sm_e07_{}", std::process::id())).join(format!("{}", case["id"].as_u64().unwrap_or(0)));
    let base = root.join("outer").join("base");
    let _ = std::fs::remove_dir_all(&root);
    std::fs::create_dir_all(&base).expect("scratch dir");
    for f in case["fs"].as_array().unwrap() {
        let p = base.join(cps_to_string(&f["path"]));
        if let Some(d) = p.parent() { let _ = std::fs::create_dir_all(d); }
        std::fs::write(&p, f["text"].as_str().unwrap()).expect("write scratch file");
    }
    let calls: Vec<Value> = case["calls"].as_array().unwrap().iter().map(full_call).collect();
    let out = guard(|| {
        let mut b = SourceMapBuilder::new(None);
        for o in &calls {
            match o["op"].as_str().unwrap() {
                "add_source" => { b.add_source(&cps_to_string(&o["s"])); }
                "set_source_contents" => b.set_source_contents(o["id"].as_u64().unwrap() as u32, o["c"].as_array().and_then(|a| a.first()).and_then(|s| s.as_str())),
                _ => panic!("harness: unexpected call"),
            }
        }
        let ret = match b.load_local_source_contents(Some(&base)) { Ok(n) => n as i64, Err(_) => -1 };
        let mut n = 0u32;
        while b.get_source(n).is_some() { n += 1; }
        json!({"k": "ok", "ret": ret, "bobs": {"sources": (0..n).map(|i| cps(b.get_source(i).unwrap())).collect::<Vec<_>>(),
                                                "contents": (0..n).map(|i| opt_str(b.get_source_contents(i))).collect::<Vec<_>>()}})
    });
    let _ = std::fs::remove_dir_all(&root);
    em.emit("load_local", json!({"calls": calls, "fs": case["fs"]}), out);
}

const NAMES: &[&str] = &["a.js", "dir/b.js", "dir/sub/c.js", "./a.js", "dir/../a.js", "../up.js", "dir/./b.js", "missing.js", "", "dir",
                         "/no/such/root.js", "http://h/y.js", "https://h/z.js", "webpack:///w.js", "a:b", "x-1.y_2/z.js"];
pub fn gen(rng: &mut Rng, _size: usize) -> Value {
    let mut calls = vec![];
    let mut n = 0u64;
    let mut seen: Vec<&str> = vec![];
    for _ in 0..1 + rng.below(7) {
        let s = *rng.pick(NAMES);
        if !seen.contains(&s) { seen.push(s); n += 1; }
        calls.push(json!({"op": "add_source", "s": cps(s)}));
        if rng.chance(1, 4) { calls.push(json!({"op": "set_source_contents", "id": rng.below(n), "c": if rng.chance(1, 3) { json!([]) } else { json!(["given"]) }})); }
    }
    let files: &[&str] = &["a.js", "dir/b.js", "dir/sub/c.js", "../up.js", "x-1.y_2/z.js", "other.js"];
    let fs: Vec<Value> = files.iter().filter(|_| rng.chance(1, 2)).map(|p| json!({"path": cps(p), "text": format!("// text of {}\nvar é = 1;", p)})).collect();
    json!({"op": "load_local", "id": rng.below(1 << 30), "calls": calls, "fs": fs})
}
