//! C04 — ordering and lookup;  C07 — range mappings (round trip + lookups)
use crate::c01::{gen_model, realise};
use crate::doc::*;
use crate::*;
use serde_json::{json, Value};
use sourcemap::{DecodedMap, SourceMap};

pub const MAXU: i64 = 2147483647;
fn qnum(v: &Value) -> u32 {
    crate::maps::u(v)        // same stand-ins as token positions (MAXU, 2^30+1..3)
}

pub fn ordering_out(sm: &SourceMap) -> Value {
    guard(|| {
        let n = sm.get_token_count();
        json!({"k": "ok",
               "toks": sm.tokens().map(|t| tok_json(&t)).collect::<Vec<_>>(),
               "gets": (0..n as usize).filter_map(|i| sm.get_token(i)).map(|t| tok_json(&t)).collect::<Vec<_>>(),
               "count": n,
               "beyond": match sm.get_token(n as usize) { Some(t) => json!([tok_json(&t)]), None => json!([]) }})
    })
}

pub fn lookups_out(sm: &SourceMap, qs: &[Value]) -> Value {
    let mut rs = vec![];
    for q in qs {
        let (l, c) = (qnum(&q[0]), qnum(&q[1]));
        let r = guard(|| match sm.lookup_token(l, c) {
            // the original position through each accessor that reports it: get_src_line/get_src_col, get_src(), to_tuple()
            Some(t) => json!([{"tok": tok_json(&t), "sl": num(t.get_src_line()), "sc": num(t.get_src_col()),
                               "src": [num(t.get_src().0), num(t.get_src().1)], "tuple": [num(t.to_tuple().1), num(t.to_tuple().2)]}]),
            None => json!([]),
        });
        if r.get("k").is_some() {
            return json!({"k": "panic", "at": q, "msg": r["msg"]});
        }
        rs.push(r);
    }
    json!({"k": "ok", "rs": rs})
}

/// one iterator session: stepping calls on ONE `tokens()` iterator, then a consuming call
pub fn iterate_out(sm: &SourceMap, steps: &[Value]) -> Value {
    guard(|| {
        let cap = sm.get_token_count() as usize + 2;      // a broken adaptor must not loop for ever
        let mut it = sm.tokens();
        let mut outs: Vec<Value> = vec![];
        let one = |t: Option<sourcemap::Token>| match t { Some(t) => json!([tok_json(&t)]), None => json!([]) };
        for (i, st) in steps.iter().enumerate() {
            let n = st["n"].as_u64().unwrap() as usize;
            match st["op"].as_str().unwrap() {
                "next" => outs.push(one(it.next())),
                "nth" => outs.push(one(it.nth(n))),
                "hint" => { let (lo, hi) = it.size_hint(); outs.push(json!([lo, hi.map(|h| h as i64).unwrap_or(-1)])); }
                fin => {
                    assert!(i + 1 == steps.len(), "final op in the middle");
                    outs.push(match fin {
                        "rest" => json!(it.take(cap).map(|t| tok_json(&t)).collect::<Vec<_>>()),
                        "skip" => json!(it.skip(n).take(cap).map(|t| tok_json(&t)).collect::<Vec<_>>()),
                        "step_by" => json!(it.step_by(n).take(cap).map(|t| tok_json(&t)).collect::<Vec<_>>()),
                        "last" => one(it.take(cap).last()),
                        "count" => json!([it.take(cap).count()]),
                        _ => panic!("harness: unknown op"),
                    });
                    break;
                }
            }
        }
        json!({"k": "ok", "outs": outs})
    })
}
/// random session over a map of ntok tokens
pub fn gen_steps(rng: &mut Rng, ntok: usize) -> Vec<Value> {
    let mut v = vec![];
    let arg = |rng: &mut Rng| if rng.chance(1, 6) { rng.below(ntok as u64 + 3) } else { rng.below(4) };
    for _ in 0..rng.below(6) {
        v.push(match rng.below(4) { 0 | 1 => json!({"op": "next", "n": 0}), 2 => json!({"op": "nth", "n": arg(rng)}), _ => json!({"op": "hint", "n": 0}) });
    }
    v.push(match rng.below(5) {
        0 => json!({"op": "rest", "n": 0}), 1 => json!({"op": "last", "n": 0}), 2 => json!({"op": "count", "n": 0}),
        3 => json!({"op": "skip", "n": arg(rng)}), _ => json!({"op": "step_by", "n": 1 + arg(rng)}),
    });
    v
}

/// the same queries through the kind-dispatching `DecodedMap::lookup_token`
fn lookups_decoded(d: &DecodedMap, qs: &[Value]) -> Value {
    let mut rs = vec![];
    for q in qs {
        let (l, c) = (qnum(&q[0]), qnum(&q[1]));
        let r = guard(|| match d.lookup_token(l, c) {
            Some(t) => json!([{"tok": tok_json(&t), "sl": num(t.get_src_line()), "sc": num(t.get_src_col())}]),
            None => json!([]),
        });
        if r.get("k").is_some() { return json!({"k": "panic", "at": q, "msg": r["msg"]}); }
        rs.push(r);
    }
    json!({"k": "ok", "rs": rs})
}

fn observe(sm: &SourceMap, qs: &[Value], via: &str, how: &str, em: &mut Emitter) {
    let toks: Vec<Value> = sm.tokens().map(|t| tok_json(&t)).collect();
    em.emit("ordering", json!({"how": how, "via": via}), ordering_out(sm));
    // Numbers >= 2^30 are logged through an order-preserving map that is exact only at the stand-in values.  A producer
    // that MOVES such a position (adjust_mappings) yields values the log cannot tell apart from a query's: only the
    // ordering is judged there, not the lookups.
    let moved = via != "direct" && toks.iter().any(|t| (0..2).any(|k| { let x = t[k].as_i64().unwrap(); x >= 1 << 30 && x != MAXU }));
    if moved { return; }
    em.emit("lookups", json!({"how": how, "via": via, "toks": toks, "qs": qs}), lookups_out(sm, qs));
}

pub fn run(case: &Value, em: &mut Emitter) {
    let qs: Vec<Value> = case["qs"].as_array().cloned().unwrap_or_default();
    if let Some(steps) = case.get("steps").and_then(|s| s.as_array()) {
        for (how, _m, _doc, d) in realise(case) {
            let sm = match &d { DecodedMap::Regular(sm) => sm.clone(), DecodedMap::Hermes(h) => (**h).clone(), DecodedMap::Index(i) => match i.flatten() { Ok(f) => f, Err(_) => continue } };
            let gets: Vec<Value> = (0..sm.get_token_count() as usize).filter_map(|i| sm.get_token(i)).map(|t| tok_json(&t)).collect();
            em.emit("iterate", json!({"how": how, "toks": gets, "steps": steps}), iterate_out(&sm, steps));
        }
        if case["op"] == "iterate" { return; }
    }
    for (how, _m, _doc, d) in realise(case) {
        match &d {
            DecodedMap::Regular(sm) => {
                observe(sm, &qs, "direct", &how, em);
                let toks: Vec<Value> = sm.tokens().map(|t| tok_json(&t)).collect();
                em.emit("lookups", json!({"how": how, "via": "decodedmap", "toks": toks, "qs": qs}), lookups_decoded(&d, &qs));
                if case.get("producers").is_some() {
                    if let Ok(r) = sm.clone().rewrite(&sourcemap::RewriteOptions::default()) {
                        observe(&r, &qs, "rewrite", &how, em);
                    }
                    let mut a = sm.clone();
                    // (a panic inside a producer is data: it is logged as an ordering event the judge rejects)
                    let r = guard(|| { a.adjust_mappings(sm); json!({"k": "done"}) });
                    if r["k"] == "panic" { em.emit("ordering", json!({"how": how, "via": "adjust"}), r); return; }
                    observe(&a, &qs, "adjust", &how, em);
                    // the same object queried, then replaced in place, then queried again
                    let mut h = sm.clone();
                    let _ = lookups_out(&h, &qs);
                    let _ = h.tokens().count();
                    let shift = SourceMap::new(None, vec![sourcemap::RawToken { dst_line: 10, dst_col: 2, src_line: 0, src_col: 0, src_id: !0, name_id: !0, is_range: false }], vec![], vec![], None);
                    let r = guard(|| { h.adjust_mappings(&shift); json!({"k": "done"}) });
                    if r["k"] == "panic" { em.emit("ordering", json!({"how": how, "via": "lookup-adjust-lookup"}), r); return; }
                    observe(&h, &qs, "lookup-adjust-lookup", &how, em);
                    let h2 = h.clone();
                    observe(&h2, &qs, "clone-after-adjust", &how, em);
                    let mut bytes = vec![];
                    if sm.to_writer(&mut bytes).is_ok() {
                        if let Ok(back) = SourceMap::from_slice(&bytes) {
                            observe(&back, &qs, "reload", &how, em);
                        }
                    }
                }
            }
            DecodedMap::Index(smi) => {
                if let Ok(f) = smi.flatten() {
                    observe(&f, &qs, "flatten", &how, em);
                }
            }
            DecodedMap::Hermes(h) => {
                observe(h, &qs, "direct", &how, em);
                let toks: Vec<Value> = h.tokens().map(|t| tok_json(&t)).collect();
                em.emit("lookups", json!({"how": how, "via": "decodedmap", "toks": toks, "qs": qs}), lookups_decoded(&d, &qs));
            }
        }
    }
}

/// queries around every token, between tokens, before the first, on later lines, at MAX
pub fn gen_queries(rng: &mut Rng, toks: &[Value], n: usize) -> Vec<Value> {
    let mut qs = vec![json!([0, 0]), json!([MAXU, MAXU]), json!([0, MAXU]), json!([MAXU, 0])];
    for _ in 0..n {
        if toks.is_empty() || rng.chance(1, 8) {
            qs.push(json!([rng.range(0, 6), rng.range(0, 60)]));
            continue;
        }
        let t = rng.pick(toks);
        let (l, c) = (t[0].as_i64().unwrap(), t[1].as_i64().unwrap());
        qs.push(match rng.below(7) {
            0 => json!([l, c]),
            1 => json!([l, (c - 1).max(0)]),
            2 => json!([l, c + 1]),
            3 => json!([l, c + rng.range(0, 40)]),
            4 => json!([l + 1, rng.range(0, c + 3)]),
            5 => json!([l + rng.range(1, 3), c]),
            _ => json!([l, MAXU]),
        });
    }
    // coordinates never exceed the stand-in for u32::MAX
    // ... and inside the stand-in region (above 2^30) only the stand-ins themselves are meaningful numbers
    for q in qs.iter_mut() { for k in 0..2 {
        let x = q[k].as_i64().unwrap();
        if x > (1 << 30) + 3 { q[k] = json!(MAXU); } else if x < 0 { q[k] = json!(0); }
    } }
    qs
}

/// a run of k tokens sharing one position (k up to 140), with tokens before and after
fn gen_run(rng: &mut Rng) -> Value {
    let k = 1 + rng.below(140) as usize;
    let before = rng.below(4) as usize;
    let after = rng.below(4) as usize;
    let mut toks = vec![];
    for i in 0..before { toks.push(json!([1, i, 0, i, 0, -1, 0])); }
    let zero_at = rng.below(k as u64) as usize;     // one token of the run maps to the origin 0:0 of its source
    for i in 0..k { toks.push(json!([3, 7, 0, if i == zero_at { 0 } else { 10 + i }, 0, -1, 0])); }
    for i in 0..after { toks.push(json!([3, 8 + i, 0, 500 + i, 0, -1, 0])); }
    json!({"op": "lookup", "toks": toks, "nsrc": 1, "nnm": 0, "how": "new",
           "qs": [[3, 7], [3, 6], [3, 8], [3, 100], [4, 0], [1, 0], [0, 0], [2, 5]]})
}
/// tokens at extreme coordinates (column / line u32::MAX, written MAXU), handed over in any order
fn gen_extreme(rng: &mut Rng) -> Value {
    let mut toks = vec![];
    let l0 = rng.range(0, 3);
    for l in l0..l0 + 1 + rng.range(0, 2) {
        if rng.chance(2, 3) { toks.push(json!([l, 0, 0, toks.len(), 0, -1, 0])); }
        if rng.chance(1, 2) { toks.push(json!([l, rng.range(1, 50), 0, toks.len(), 0, -1, 0])); }
        if rng.chance(2, 3) { toks.push(json!([l, MAXU, 0, toks.len(), 0, -1, 0])); }
    }
    if rng.chance(1, 3) { toks.push(json!([MAXU, rng.range(0, 3), 0, toks.len(), 0, -1, 0])); }
    // positions on either side of the sign bit (stand-ins 2^30+1.. for 2^31-1, 2^31, 2^31+5), also through the producers
    let signbit = rng.chance(1, 2);
    if signbit {
        toks.retain(|t| t[0] != json!(MAXU) && t[1] != json!(MAXU));     // (shifting u32::MAX would leave the u32 range)
        let l = l0 + rng.range(0, 1);
        for k in 1..=3 { if rng.chance(2, 3) { toks.push(json!([l, (1i64 << 30) + k, 0, toks.len(), 0, -1, 0])); } }
        // (no huge LINE numbers here: the producers include a save / load cycle, and the writer emits one ';' per line)
    }
    crate::c02::shuffle(rng, &mut toks);
    let mut qs = vec![json!([0, 0]), json!([MAXU, MAXU]), json!([l0, MAXU]), json!([l0 + 1, 0]), json!([l0 + 1, 1]), json!([l0, 60])];
    qs.extend(gen_queries(rng, &toks, 10));
    let mut m = json!({"op": "lookup", "toks": toks, "nsrc": 1, "nnm": 0, "how": "new", "qs": qs});
    if signbit { m["producers"] = json!(true); }
    m
}
fn gen_with(rng: &mut Rng, size: usize, with_range: bool) -> Value {
    if !with_range && rng.chance(1, 10) { return gen_run(rng); }
    if !with_range && rng.chance(1, 12) { return gen_extreme(rng); }
    let mut m = if rng.chance(1, 8) && !with_range {
        json!({"op": "lookup", "doc": crate::c02::gen_index_doc(rng, size, 1)})
    } else {
        let mut m = gen_model(rng, size * 2, with_range);
        m["op"] = json!("lookup");
        m
    };
    let toks: Vec<Value> = m.get("toks").and_then(|t| t.as_array().cloned()).unwrap_or_default();
    m["qs"] = json!(gen_queries(rng, &toks, 30));
    if rng.chance(1, 2) { m["steps"] = json!(gen_steps(rng, toks.len())); }
    m["producers"] = json!(true);
    m
}
pub fn gen(rng: &mut Rng, size: usize) -> Value {
    gen_with(rng, size, false)
}

// ------------------------------------------------------------------ C07
/// ONE generated line with more than 2^16 segments (a one-line minified bundle), range flags on both sides of segment
/// 65536, a second line after it.  Too large to be judged token by token: the judged relation is "the same segments
/// carry the range flag after writing and reading back" (and the shifted answers of two lookups inside flagged ranges).
fn run_bigline(case: &Value, em: &mut Emitter) {
    let n = case["n"].as_u64().unwrap() as u32;
    let flags: Vec<u32> = case["flags"].as_array().unwrap().iter().map(|x| x.as_u64().unwrap() as u32).collect();
    let out = guard(|| {
        let mut toks = Vec::with_capacity(n as usize + 1);
        for i in 0..n {
            toks.push(sourcemap::RawToken { dst_line: 0, dst_col: 2 * i, src_line: i % 5, src_col: i % 11, src_id: 0, name_id: !0, is_range: flags.contains(&i) });
        }
        toks.push(sourcemap::RawToken { dst_line: 1, dst_col: 3, src_line: 1, src_col: 1, src_id: 0, name_id: !0, is_range: flags.contains(&n) });
        let sm = SourceMap::new(None, toks, vec![], vec!["a.js".into()], None);
        let mut b = vec![];
        if let Err(e) = sm.to_writer(&mut b) { return json!({"k": "err", "e": format!("{:?}", e)}); }
        let sm2 = match SourceMap::from_slice(&b) { Ok(m) => m, Err(e) => return json!({"k": "err", "e": format!("{:?}", e)}) };
        let flags2: Vec<u32> = sm2.tokens().enumerate().filter(|(_, t)| t.is_range()).map(|(i, _)| i as u32).collect();
        // a lookup one column to the right of every flagged segment of line 0: the column offset within the range
        let shifts: Vec<i64> = flags.iter().filter(|&&i| i < n).map(|&i| sm2.lookup_token(0, 2 * i + 1).map(|t| t.get_src_col() as i64 - (i % 11) as i64).unwrap_or(-99)).collect();
        json!({"k": "ok", "n2": sm2.get_token_count(), "flags2": flags2, "shifts": shifts})
    });
    em.emit("bigline", json!({"n": n, "flags": flags, "nshift": flags.iter().filter(|&&i| i < n).count()}), out);
}

pub fn run_c07(case: &Value, em: &mut Emitter) {
    if case["op"] == "bigline" { return run_bigline(case, em); }
    if case.get("qs").is_some() {
        run(case, em);
    } else {
        crate::c01::run(case, em);
    }
}
pub fn gen_c07(rng: &mut Rng, size: usize) -> Value {
    if rng.chance(1, 60) {
        // segment counts next to 2^16 (and now and then 2^17): flags at the first segments, next to the boundary, at the end
        let n = if rng.chance(1, 6) { (1u64 << 17) + rng.below(6) } else { (1u64 << 16) - 3 + rng.below(4000) };
        let mut flags: Vec<u64> = vec![rng.below(20), (1 << 16) - 1 - rng.below(3), n - 1 - rng.below(3)];
        for d in 0..3 { if (1 << 16) + d < n && rng.chance(2, 3) { flags.push((1 << 16) + d); } }
        for _ in 0..rng.below(6) { flags.push(rng.below(n)); }
        if rng.chance(1, 2) { flags.push(n); }
        flags.retain(|&i| i <= n);
        flags.sort(); flags.dedup();
        return json!({"op": "bigline", "n": n, "flags": flags});
    }
    match rng.below(4) {
        0 => {
            // a long line: up to 70 tokens (sometimes up to 330) on one line, random flag density incl. a lone flag
            let n = if rng.chance(1, 6) { 100 + rng.below(230) } else { 1 + rng.below(70) };
            let lead = rng.below(3) as i64;
            let dens = if rng.chance(1, 3) { n + 1 } else { 1 + rng.below(6) };   // n+1: (almost) no flag except the forced ones below
            let mut toks = vec![];
            if lead > 0 && rng.chance(1, 2) { toks.push(json!([0, 0, 0, 0, 0, -1, rng.below(2)])); }
            let lone = rng.below(n) as i64;
            for i in 0..n as i64 {
                toks.push(json!([lead, i * 3, 0, i, 5, -1, if rng.below(dens) == 0 || i == lone || i == n as i64 - 1 { 1 } else { 0 }]));
            }
            if rng.chance(1, 2) { toks.push(json!([lead + 1, 4, 0, 1, 1, -1, rng.below(2)])); }
            let mut m = json!({"op": "map", "toks": toks, "nsrc": 1, "nnm": 0});
            if rng.chance(1, 2) {
                m["op"] = json!("lookup");
                let ts: Vec<Value> = m["toks"].as_array().unwrap().clone();
                m["qs"] = json!(gen_queries(rng, &ts, 40));
            }
            m
        }
        1 | 2 => gen_model(rng, size, true),
        _ => {
            let mut m = gen_with(rng, size, true);
            m.as_object_mut().unwrap().remove("producers");
            m
        }
    }
}
