#!/usr/bin/env python3
"""Regenerate MANIFEST.json from props.py (single source of truth for the check table)."""
import json, os, sys
ROOT = os.path.dirname(os.path.abspath(__file__))
sys.path.insert(0, ROOT)
from props import PROPS, NOT_APPLICABLE, HOOK_COMMITS
ids = [json.loads(l)["id"] for l in open(os.path.join(ROOT, "properties.jsonl"))]
checks = []
for pid in ids:
    if pid not in PROPS:
        continue
    P = PROPS[pid]
    checks.append(dict(
        property_id=pid,
        quick_cmd="./check %s quick" % pid,
        thorough_cmd="./check %s thorough" % pid,
        evidence_file="/verif/evidence/%s.json" % pid,
        replay_cmd_template="./check %s --replay {path}" % pid,
        engine="tlc-trace-conformance",
        level_claimed=dict(category=P["level"], text=P["level_text"], design_ref="DESIGN.md section 4, " + pid),
        level_note=P["level_note"],
        technique=P["technique"],
    ))
na = [dict(property_id=p, reason=NOT_APPLICABLE.get(p, "check not built yet (work in progress; see DESIGN.md section 4 for the plan)")) for p in ids if p not in PROPS]
m = dict(
    version=1,
    setup_cmd="cd /verif/harness && CARGO_NET_OFFLINE=true cargo build --release --offline -q",
    hooks=dict(guard="sourcemap_verif",
               enable="RUSTFLAGS='--cfg sourcemap_verif' (set in /verif/harness/.cargo/config.toml; the harness has a path dependency on /repo, feature ram_bundle)",
               baseline_off_cmd="cd /repo && cargo test --workspace --no-fail-fast --offline",
               source_commits=HOOK_COMMITS, add_only=True),
    engines=[dict(name="tlc-trace-conformance", path="/verif/check",
                  serves_properties=[c["property_id"] for c in checks],
                  kind_free_text="explicit TLA+ specification (/verif/spec), TLC bounded model checking + universe enumeration, Rust harness executes cases on the real crate, TLC validates the recorded traces against Trace_*.tla")],
    checks=checks,
    not_applicable=na,
    notes="Every claimed property is decided by the TLA+ specification: TLC model-checks it on a bounded universe and judges every recorded execution of the real crate. See DESIGN.md.",
)
json.dump(m, open(os.path.join(ROOT, "MANIFEST.json"), "w"), indent=1)
print("MANIFEST.json: %d checks, %d not_applicable" % (len(checks), len(na)))
